"""Per-property configuration of the monitor binaries (units), floors and evidence rules."""


def alg_units(p):
    sh = [{"quick": 8, "thorough": 16}, {"quick": 4, "thorough": 8}, {"quick": 2, "thorough": 8}, {"quick": 2, "thorough": 8}]
    units = [{"name": f"alg{p}_{n}", "src": "harness/alg.cpp", "defs": [f"-DTS={i}", f"-DPROP={p}"], "flavor": "asan", "shards": sh[i]}
             for i, n in enumerate(["d", "f", "b1", "b2"])]
    units.append({"name": f"alg{p}_x", "src": "harness/alg.cpp", "defs": ["-DTS=4", f"-DPROP={p}"], "flavor": "asan",
                  "shards": {"quick": 4, "thorough": 8}, "tiers": ["thorough"]})
    return units


ORACLE_ASSUMPTIONS = [
    "oracle layouts (coefficient/tangent -> matrix) are read from the documentation blocks of include/smooth/detail/*.hpp; "
    "the Galilei algebra form is taken with a zero last row (the documented trailing 1 cannot belong to a Lie algebra of a group with unit diagonal)",
    "long double (x87, eps 1.1e-19) scaling-and-squaring expm / block-expm Jacobians; oracle self-tests pass before every run",
    "verdict covers only the executions sampled (stratified PRNG generators, seed VERIF_SEED)",
]

def c06_units():
    return [
        {"name": "c06_a", "src": "harness/c06.cpp", "defs": ["-DTS=0"], "flavor": "asan", "shards": {"quick": 4, "thorough": 8}},
        {"name": "c06_b", "src": "harness/c06.cpp", "defs": ["-DTS=1"], "flavor": "asan", "shards": {"quick": 4, "thorough": 8}},
        {"name": "c06_v", "src": "harness/c06.cpp", "defs": ["-DTS=2"], "flavor": "asan", "shards": {"quick": 2, "thorough": 4}},
        {"name": "c06_c", "src": "harness/c06.cpp", "defs": ["-DTS=3"], "flavor": "asan", "shards": {"quick": 4, "thorough": 8}, "tiers": ["thorough"]},
    ]


import re as _re


def c18_post(ctx):
    """Parse ThreadSanitizer logs: every report with a library frame becomes a violation keyed by the
    outermost smooth frames of its stacks (line numbers stripped); other reports make the run inconclusive."""
    n_reports = 0
    for text in ctx["tsan_reports"]:
        for block in text.split("==================")[1:]:
            if "WARNING: ThreadSanitizer" not in block:
                continue
            n_reports += 1
            kind = _re.search(r"WARNING: ThreadSanitizer: ([^\n(]+)", block)
            kind = kind.group(1).strip() if kind else "report"
            # split into stacks (separated by blank lines); take the innermost frame inside the smooth headers of each stack
            fns = []
            for stack in block.split("\n\n"):
                m = None
                for line in stack.splitlines():
                    mm = _re.search(r"#\d+ (.*?) (/repo/include/smooth/[\w/\.]+):\d+", line)
                    if mm:
                        m = mm
                        break
                if m:
                    fn = m.group(1)
                    for _ in range(12):  # strip nested template argument lists
                        fn2 = _re.sub(r"<[^<>]*>", "", fn)
                        if fn2 == fn:
                            break
                        fn = fn2
                    fn = _re.sub(r"\(.*", "", fn).strip()
                    name = "::".join(fn.split(" ")[-1].split("::")[-2:])
                    fns.append(name + "@" + m.group(2).split("/smooth/")[-1])
            fns = sorted(set(fns))
            if fns:
                site = "tsan[" + kind + ":" + "|".join(fns[:3]) + "]"
                key = (site, "tsan")
                v = ctx["viols"].setdefault(key, {"site": site, "stratum": "tsan", "stream": "concurrent.tsan", "case": 0, "count": 0, "err": "race",
                                                  "tol": 0, "unit": "c18_tsan", "detail": {"report": block[:3500]}})
                v["count"] += 1
            else:
                ctx["counters"]["C18.tsan_reports_without_library_frame"] = ctx["counters"].get("C18.tsan_reports_without_library_frame", 0) + 1
    ctx["counters"]["C18.tsan_reports_total"] = n_reports
    ctx["counters"]["C18.tsan_log_files"] = len(ctx["tsan_reports"])


PROPS = {
    "C01": {
        "units": alg_units(1),
        "rule": "cases = triples (g1,g2,g3) of elements (+ a point) per group type, generated from coefficient strata "
                "(angle 0/tiny/band/generic/near-pi/half-turn x translation 0/<1/<=1e3/mixed) or via the library's exp/Identity; "
                "distinct = distinct (g1,g2) coefficient bit patterns; non-trivial = not both the identity",
        "floors": {"min_evaluations": {"quick": 100000, "thorough": 1000000},
                   "cells": [r"SO3d\.compose\|ang:pi", r"SE3d\.compose\|.*tr:<=1e3", r"Galileif\.inverse", r"B<.*>\.compose"]},
        "assumptions": ORACLE_ASSUMPTIONS,
    },
    "C02": {
        "units": alg_units(2),
        "rule": "cases = tangent vectors (rotation norm strata 0, 1e-12..1e-6, 1e-6..1e-1 dense, generic, pi-1e-12..pi, pi..50) and elements; "
                "distinct = distinct input bit patterns; non-trivial = non-zero tangent / non-identity element",
        "floors": {"min_evaluations": {"quick": 100000, "thorough": 1000000},
                   "cells": [r"Galileid\.exp\|rot:1e-4", r"SE3d\.exp\|rot:beyond", r"SO3d\.explog_nearpi", r"SE2f\.exp\|rot:1e-4"]},
        "assumptions": ORACLE_ASSUMPTIONS,
    },
    "C03": {
        "units": alg_units(3),
        "rule": "cases = (g1,g2,a,b,c) per type; distinct = distinct (g1,a) bit patterns; non-trivial = a != 0 or g1 != identity",
        "floors": {"min_evaluations": {"quick": 100000, "thorough": 1000000},
                   "cells": [r"Galileid\.Ad\|", r"SO2d\.ad\|", r"B<.*>\.Ad\|"]},
        "assumptions": ORACLE_ASSUMPTIONS,
    },
    "C04": {
        "units": alg_units(4),
        "rule": "cases = tangent vectors (same strata as C02, dense in 1e-6..1e-1) and (g,v) pairs for dr_action; "
                "distinct = distinct input bit patterns; non-trivial = non-zero tangent / non-zero point",
        "floors": {"min_evaluations": {"quick": 50000, "thorough": 500000},
                   "cells": [r"Galileid\.dr_exp\|rot:1e-4", r"SE3d\.dr_expinv\|rot:1e-4", r"SE3f\.dr_exp\|rot:1e-4", r"SE2d\.dr_action"]},
        "assumptions": ORACLE_ASSUMPTIONS,
    },
    "C05": {
        "units": alg_units(5),
        "rule": "cases = tangent vectors (rotation norm <= pi-1e-3, dense in 1e-6..1e-1) for the group Hessians; random square factors "
                "(n,nvar in 1..6) for d_matrix_product; random quadratic maps for d2_fog; distinct = distinct input bit patterns; "
                "non-trivial = non-zero tangent (all generic-helper cases count)",
        "floors": {"min_evaluations": {"quick": 20000, "thorough": 200000},
                   "cells": [r"SE2d\.d2r_exp\|rot:1e-4", r"SE3d\.d2r_expinv\|rot:1e-4", r"d_matrix_product\|dynamic", r"d2_fog\.end_to_end\|.*sparseJf"]},
        "assumptions": ORACLE_ASSUMPTIONS,
    },
    "C06": {
        "units": c06_units(),
        "rule": "cases = (g1,g2,a) per Bundle composition (8 compositions quick, 12 thorough: order, repetition, nesting, single member, "
                "commutative-only, float) and (x,y,a) per vector/scalar type (fixed 1..6, dynamic 0..12, double, float); every member is "
                "compared with the same operation on part<i>() arranged by the oracle's own prefix sums (<= 2 ulp, zero outside blocks); "
                "distinct = distinct (g1,a) bit patterns; non-trivial = a != 0 (vectors: size > 0)",
        "floors": {"min_evaluations": {"quick": 100000, "thorough": 1000000},
                   "cells": [r"B<B<SO3d,R2d>,SE2d,R1d>\.d2r_exp\.part0", r"B<Galileid,R1d,SE_2_3d>\.Ad\.outside_zero", r"RXd\.d2r_exp\|n=0", r"float\.composition"],
                   "counters": ["C06.biteq_comparisons"]},
        "assumptions": ["parts (judged by C01-C05) are the reference; arrangement uses the oracle layouts' own prefix sums",
                        "verdict covers only the executions sampled"],
    },
    "C17": {
        "units": [{"name": "c17", "src": "harness/c17.cpp", "flavor": "asan", "shards": {"quick": 8, "thorough": 16}}],
        "rule": "cases = elements/tangents per relation (SE_K_3<1> vs SE3 op-by-op, SE_K_3<2> vs Galilei at tau=0, lifts/projections, C1 factorisation, "
                "rot_x/y/z, quaternion / isometry / complex / Euler (12 conventions) conversions, SO2 angle representations incl. signed-zero "
                "coefficient patterns and atan2 cuts +- 1 ulp), float and double; distinct = distinct input bit patterns (all count as non-trivial)",
        "floors": {"min_evaluations": {"quick": 100000, "thorough": 1000000},
                   "cells": [r"convd\.angle_cw\.range\|signed_zero_coeffs", r"convd\.euler\.roundtrip\|proper", r"SE_2_3d<Galilei\.Ad", r"liftd\.project_se2"]},
        "assumptions": ["oracle layouts / embeddings written from the documentation", "verdict covers only the executions sampled"],
    },
    "C20": {
        "units": [{"name": "c20", "src": "harness/c20.cpp", "flavor": "asan", "shards": {"quick": 8, "thorough": 16}}],
        "rule": "bases: degrees K = 0..10 x ~55 evaluation points per batch (end points, 1e-9 inside, random); LGR K = 1..16; "
                "integrate_absolute_polynomial: random (A,B,C,t0<=t1) with coefficients 0 / 1e-12..1e-6 / 1e-6..1e3 and a root forced inside "
                "the interval in half of the cases; binary_interval_search: EXHAUSTIVE over all sorted ranges of length 0..8 over a 5-letter "
                "alphabet x 22 queries for double/int/opaque element types, plus random long/clustered ranges; distinct = distinct inputs",
        "floors": {"min_evaluations": {"quick": 100000, "thorough": 1000000},
                   "cells": [r"binary_interval_search\.opaque\|case4_interior", r"lgr\.exactness\|K=16", r"laguerre\.recurrence\|K=10", r"integrate_absolute_polynomial\|"],
                   "counters": ["C20.search.exhaustive_ranges"]},
        "assumptions": ["definitions re-implemented in long double (binomials, Cox-de Boor, three-term recurrences, exact antiderivatives with stable roots)",
                        "verdict covers only the executions sampled; the search sweep over length <= 8 is exhaustive"],
    },
    "C10": {
        "units": [{"name": "c10", "src": "harness/c10.cpp", "flavor": "asan", "shards": {"quick": 8, "thorough": 16}}],
        "rule": "cases = random (J, d, r, lambda): shapes 1..40 x 1..40 (tall/wide/square), entries over 6 decades, dense and sparse "
                "(density 5%..100%, explicit zeros), exact rank deficiency (duplicate / zero / dependent columns, zero rows, rank 1), "
                "d in 1e-6..1e3, lambda = 1/Delta in 1e-6..1e6; plus static 6x3; distinct = distinct (J,r) bit patterns (all non-trivial)",
        "floors": {"min_evaluations": {"quick": 50000, "thorough": 1000000},
                   "cells": [r"ldlt\.sparse\.normal_equations\|dup_col", r"ldlt\.dense\.dphi\|", r"trust_region\.sparse\.no_increase\|wide", r"colwise_norm\.sparse"]},
        "assumptions": ["reference = long-double normal equations solved with full-pivoting LU; condition number by power/inverse iteration in long double",
                        "verdict covers only the executions sampled"],
    },
    "C09": {
        "units": [{"name": "c09", "src": "harness/c09.cpp", "flavor": "asan", "shards": {"quick": 12, "thorough": 16}}],
        "rule": "cases = (problem family, start, options, differentiation mode): linear LS (dynamic/static, dense/sparse analytic, numerical, default), "
                "point alignment on SO3/SE3/SE2 (noise-free and 1e-8..1e-4 noise; starts at / near / far from the minimiser), a three-argument "
                "(SO3, Bundle<SO3,R3>, double) problem, Rosenbrock, Powell singular, exponential fit, rank-deficient / zero Jacobian, zero residual at "
                "start; options max_iter in {0,1,2,5,30,1000}, ptol/ftol in 1e-12..1e-2, Ceres/Disney strategies fresh and REUSED across problems; "
                "every run is repeated with max_iter+5 from identical strategy state to decide status truthfulness; distinct = distinct (start, data)",
        "floors": {"min_evaluations": {"quick": 15000, "thorough": 400000},
                   "cells": [r"align_SE3\.numerical\.finds_minimiser", r"linear_dynamic\.analytic_sparse\.status_truthful", r"multi_argument\.numerical\.monotone_cost",
                             r"\.monotone_cost\|disney_reused", r"\.iter_le_max_iter\|.*max_iter=0"],
                   "counters": ["C09.status.Ftol", "C09.status.Ptol", "C09.status.MaxIters", "C09.rejected_steps", "C09.accepted_steps",
                                "C09.hook.accepted_by_take_step", "C09.hook.accepted_by_nonpositive_prediction", "C09.hook.accepted_by_zero_residual", "C09.hook.rejected"]},
        "assumptions": ["cost along the iterates is re-evaluated by the monitor with the same residual functor (double); minimisers from long-double normal "
                        "equations / the generating transform", "verdict covers only the executions sampled"],
    },
    "C08": {
        "units": [{"name": "c08", "src": "harness/c08.cpp", "flavor": "asan", "shards": {"quick": 12, "thorough": 16}}],
        "rule": "cases = evaluation points of a function family with matrix-level oracles (group products SO3/SE2, log of SE3 products, SE3 action, "
                "3-argument rminus, sums over std::vector<SO3> of size 1..4, Bundle argument, scalar*vector, random quadratic maps R^n->R^m static/dynamic, "
                "half squared log norm) x argument kinds (const / non-const refs) x all index subsets (incl. unsorted) x K in {0,1,2}; plus a "
                "callable with jacobian/hessian members returning random matrices (Analytic/Default verbatim, call counts). distinct = distinct points",
        "floors": {"min_evaluations": {"quick": 5000, "thorough": 100000},
                   "cells": [r"rminus3_SO3\.subset\{2,0\}", r"vector_of_SO3\.K2\.hessian", r"verbatim\.analytic\.K2\.called_once", r"product_SO3\.K1\.args_restored\|mutable_args",
                             r"polynomial_map\.K2\.hessian\|dynamic"]},
        "assumptions": ["exact derivatives = 4th-order central differences (h = 1e-3) in long double of the same function re-expressed on the documented matrix groups",
                        "verdict covers only the executions sampled"],
    },
    "C07": {
        "units": [{"name": "c07", "src": "harness/c07.cpp", "flavor": "asan", "shards": {"quick": 12, "thorough": 16}}],
        "rule": "cases = (m, a, b) per Manifold model: 10 Lie group types incl. float and a Bundle, fixed/dynamic vectors, double/float, "
                "std::vector<M> (M static/dynamic/nested/variant, sizes 0..8), std::variant with 4 alternatives, SubManifold over SO3/SE3/Bundle/VectorXd/"
                "Vector3d with EVERY subset of fixed dims for dof <= 6 (random above), unsorted and empty lists, AnyManifold over 4 payload types; "
                "tangents inside the injectivity radius (rotation <= pi-1e-3); distinct = distinct (m,a); non-trivial = a != 0",
        "floors": {"min_evaluations": {"quick": 100000, "thorough": 2000000},
                   "cells": [r"SE3d\.sub\.cast_keeps_origin", r"vector<vector<SE2d>>\.rplus_elementwise\|size=0", r"variant<.*>\.acts_as_alternative\|alt=3",
                             r"SubManifold<SE3d>\.any\.copy_independent", r"SO3d\.sub\.rplus_moves_free_only\|fixed=3/3"]},
        "assumptions": ["group leaves are compared through the documented matrix (q and -q are the same element)", "verdict covers only the executions sampled"],
    },
    "C19": {
        "units": [{"name": "c19_a", "src": "harness/c19.cpp", "defs": ["-DTS=0"], "flavor": "asan", "shards": {"quick": 8, "thorough": 16}},
                  {"name": "c19_b", "src": "harness/c19.cpp", "defs": ["-DTS=1"], "flavor": "asan", "shards": {"quick": 8, "thorough": 16}}],
        "abort_outside_case_is_violation": "static-init",
        "rule": "cases = (a, i0, host) per group (SO2/SO3/SE2/SE3/C1/R3, float+double, Galilei and SE_2_3 for ad/dr_exp, 5 Bundles incl. nested): tangent "
                "strata incl. zero, single-axis, small-angle band; block offsets 0..12, host size up to 34 with up to 400 random extra stored entries "
                "(sentinels); value/inner/outer arrays snapshotted before/after; two translation units odr-use the interdependent inline patterns in "
                "opposite orders; distinct = distinct (a, i0, host size); non-trivial = a != 0",
        "floors": {"min_evaluations": {"quick": 50000, "thorough": 1000000},
                   "cells": [r"B<SO3d,B<SE3d,C1d>>\.d2r_expinv_sparse\.others_untouched", r"SE3f\.d2r_exp_sparse\.block_equals_dense", r"Galileid\.dr_exp_sparse\.structure_unchanged",
                             r"C1d\.dr_exp_sparse\.block_equals_dense", r"SE2d\.d2r_exp\.pattern_superset"]},
        "assumptions": ["dense routines (judged by C03-C05) are the reference for the values", "verdict covers only the executions sampled"],
    },
    "C16": {
        "units": [{"name": "c16_a", "src": "harness/c16.cpp", "defs": ["-DTS=0"], "flavor": "asan", "shards": {"quick": 8, "thorough": 16}},
                  {"name": "c16_b", "src": "harness/c16.cpp", "defs": ["-DTS=1"], "flavor": "asan", "shards": {"quick": 8, "thorough": 16}}],
        "rule": "cases = (coefficients, buffer offset, operation history) per group type (7 double, 5 float, 2 Bundles): views placed at EVERY scalar-aligned "
                "offset of a 64-byte line inside a sentinel arena whose surroundings are ASan-poisoned; const ops compared value/Map/const-Map; random "
                "histories of 3..10 mutating calls (*=, +=, setIdentity, setRandom, =value/=Map/=const Map, coeffs()=, writes through so2()/so3()/r2()/"
                "r3()/r3_v()/r3_p()/r1_t()/r3<k>()/part<i>()) replayed on a plain value; const views on PROT_READ pages flush against PROT_NONE pages; "
                "distinct = distinct (coefficients, offset); all non-trivial",
        "floors": {"min_evaluations": {"quick": 100000, "thorough": 2000000},
                   "cells": [r"SE3d\.writes_only_own_range\.so3\*=", r"Galileif\.writes_only_own_range\.r1_t", r"B<SE2d,R2d,SO3d>\.writes_only_own_range\.part<1>=",
                             r"SE_3_3f\.writes_only_own_range\.r3<1>", r"SE2f\.readonly_pages\.same_results\|flush_end", r"SO3f\.compose\.constmap\|offset=15"]},
        "assumptions": ["ASan shadow granularity is 8 bytes: single-float neighbours of a view are covered by the sentinel comparison and the page monitor instead",
                        "verdict covers only the executions sampled"],
    },
    "C11": {
        "units": [{"name": "c11_a", "src": "harness/c11.cpp", "defs": ["-DTS=0"], "flavor": "asan", "shards": {"quick": 8, "thorough": 16}},
                  {"name": "c11_b", "src": "harness/c11.cpp", "defs": ["-DTS=1"], "flavor": "asan", "shards": {"quick": 8, "thorough": 16}}],
        "rule": "cases = (basis, u, differences) per (degree K, group): K = 1..6 for SO3 and SE3, {1,3,5} SE2, {3,6} R3, {2,4} Bundle<SO3,R2>; bases: "
                "harness-built cumulative Bernstein and B-spline matrices and random matrices; u in {0, 1, 1e-9, 1-1e-9, interior}; differences from "
                "0 / 1e-12..1e-6 / switch band / moderate; every third case also checks the six Jacobians; distinct = distinct (basis,u,vs); "
                "non-trivial = some rotation part non-zero",
        "floors": {"min_evaluations": {"quick": 15000, "thorough": 400000},
                   "cells": [r"SE3d\.K6\.vs\.jerk", r"SO3d\.K1\.gs\.value", r"B<SO3d,R2d>\.K4\.dacc_dgs", r"SE2d\.K5\.dg_dvs", r"R3d\.K6\.gs\.acc", r"\.vs\.value\|bspline,u:1,"]},
        "assumptions": ["oracle curve = product of long-double matrix exponentials; derivatives by matrix jets (order 3); Jacobians by 4th-order central differences "
                        "of that oracle in long double (h = 1e-3)", "verdict covers only the executions sampled"],
    },
    "C13": {
        "units": [{"name": "c13_a", "src": "harness/c13.cpp", "defs": ["-DTS=0"], "flavor": "asan", "shards": {"quick": 8, "thorough": 16}},
                  {"name": "c13_b", "src": "harness/c13.cpp", "defs": ["-DTS=1"], "flavor": "asan", "shards": {"quick": 8, "thorough": 16}}],
        "rule": "cases = splines (K, group, N in K+1..30 control points with differences from 0 / tiny / switch band / moderate, t0 in {0, +-1e3, irrational}, "
                "dt in 1e-3..1e2), each evaluated at 12 random times, EVERY knot and knot +- 1 ulp, t_min, t_max, just and far (<= 1e3 spans) outside; "
                "per spline also continuity across every interior knot, local support of a moved control point on every interval, constants, "
                "left-equivariance; K = 1..6 on SE3, {3,6} SO3, {2,4} SE2, {1,5} R3, 3 on Bundle<SO3,R2>; distinct = distinct splines",
        "floors": {"min_evaluations": {"quick": 30000, "thorough": 800000},
                   "cells": [r"SE3d\.K6\.acc", r"SE3d\.K1\.continuity\.value", r"SE2d\.K4\.continuity\.acc", r"R3d\.K5\.local_support", r"B<SO3d,R2d>\.K3\.equivariance\.vel",
                             r"SO3d\.K3\.outside_is_end_value", r"SE3d\.K3\.constant\.zero_derivatives"]},
        "assumptions": ["oracle = cumulative B-spline (own Cox-de Boor basis) through matrix jets, evaluated at the exact long-double function of the same (t, t0, dt); "
                        "exactly on a knot, outputs of discontinuous order are accepted from either side", "verdict covers only the executions sampled"],
    },
    "C12": {
        "units": [{"name": "c12_a", "src": "harness/c12.cpp", "defs": ["-DTS=0"], "flavor": "asan", "shards": {"quick": 8, "thorough": 16}},
                  {"name": "c12_b", "src": "harness/c12.cpp", "defs": ["-DTS=1"], "flavor": "asan", "shards": {"quick": 8, "thorough": 16}}],
        "rule": "cases = random programs of 1..12 operations over a register file of <= 5 splines: constructors (velocity matrix / range, ConstantVelocity, "
                "ConstantVelocityGoal, FixedCubic), +=, operator+, concat_global, crop (random, starting or ending on a knot, knot-to-knot, zero length, "
                "out of range, starting in a later segment; localised or not), up to 8 segments; after every operation the result is evaluated at 0, "
                "t_max, outside, 8 random times, every knot and knot +- 1 ulp against the executable model; degrees 1..5, groups SE3/SO3/SE2/SO2/R2; "
                "distinct = distinct operation histories",
        "floors": {"min_evaluations": {"quick": 50000, "thorough": 2000000},
                   "cells": [r"SE3d\.K3\.value\|crop\.later_segment,global", r"SE2d\.K2\.vel\|crop\.on_knot,local", r"R2d\.K3\.arclength", r"SO3d\.K4\.value\|concat_global",
                             r"SE3d\.K5\.value\|constructor", r"SE3d\.K3\.FixedCubic\.end_velocity", r"\.outside_zero_derivatives"]},
        "assumptions": ["model = expression tree (Base | ConcatLocal | ConcatGlobal | Crop | Empty) evaluated by the specification in long double with the harness' own "
                        "Bernstein basis; at junctions (within 1e-9 T) either one-sided limit is accepted for the value and derivatives are not judged",
                        "verdict covers only the executions sampled"],
    },
    "C14": {
        "units": [{"name": "c14_a", "src": "harness/c14.cpp", "defs": ["-DTS=0"], "flavor": "asan", "shards": {"quick": 10, "thorough": 16}},
                  {"name": "c14_b", "src": "harness/c14.cpp", "defs": ["-DTS=1"], "flavor": "asan", "shards": {"quick": 6, "thorough": 16}}],
        "rule": "cases: fit_spline_1d on 2..40 stamps (sampling 1e-2..1e2, neighbour ratio <= 1e3 for PiecewiseLinear / FixedDerCubic<1|2,1|2>, <= 10 for "
                "MinDerivative<6,3,3|5,3,3|6,4,3>) with every linear constraint rebuilt from the documentation in long double; fit_spline on SE3/SO3/SE2/"
                "R3/R1 data (through the points from both sides, velocity continuity for degree >= 3, rest-to-rest); dubins_curve<1..4> on targets over "
                "the plane incl. coincident circles, d = 4R, axis-aligned headings, R in 1e-2..1e2 against six self-validated oracle words; fit_bspline "
                "span; reparameterize_spline monotone/onto/start speed; distinct = distinct inputs",
        "floors": {"min_evaluations": {"quick": 20000, "thorough": 600000},
                   "cells": [r"fit_spline_1d\.MinDerivative633\.interpolation\|dt:1e-2", r"fit_spline_1d\.FixedDerCubic12\.boundary", r"dubins\.K2\.length_not_longer", r"dubins\.K3\.curvature_bound\|kind3",
                             r"fit_spline\.SE3d\.FixedDerCubic11\.ends_at_rest", r"fit_spline\.SE2d\.MinDerivative633\.velocity_continuous", r"reparameterize\.non_decreasing", r"fit_bspline\.covers_end"],
                   "counters": ["C14.dubins.oracle_words_validated"]},
        "assumptions": ["Spline evaluation itself is judged by C12; Dubins oracle words are kept only if their forward-integrated end pose hits the target",
                        "verdict covers only the executions sampled"],
    },
    "C15": {
        "units": [{"name": "c15_a", "src": "harness/c15.cpp", "defs": ["-DTS=0"], "flavor": "asan", "shards": {"quick": 8, "thorough": 16}},
                  {"name": "c15_b", "src": "harness/c15.cpp", "defs": ["-DTS=1"], "flavor": "asan", "shards": {"quick": 8, "thorough": 16}}],
        "rule": "cases = operation histories: random programs (1..200 operations of compose, inverse, exp, rplus, *=, +=, same-scalar cast, project(lift)) over a "
                "register file of 8 elements and 4 tangents started from Identity / Random / exp / coefficient constructors; homogeneous chains of 1e3 "
                "(quick) / 1e5 (thorough) steps (x*=g, x+=a, inverse ping-pong, half-turn products); constant-velocity integration through six "
                "boost::odeint steppers x {integrate_const, integrate_n_steps, do_step}, 1..300 (1e4) steps, with every stage value observed through the "
                "adaptor hook; all checks after EVERY operation with n = operations so far; distinct = distinct histories",
        "floors": {"min_evaluations": {"quick": 100000, "thorough": 3000000},
                   "cells": [r"SO3d\.canonical\.compose", r"SE3d\.accuracy\.chain\(half-turn products\)", r"Galileid\.unit\.\*=", r"B<SO3d,R2d,SE2d>\.accuracy\.rplus\|long_program",
                             r"SE2d\.odeint\.constant_velocity\|fehlberg78", r"SE2d\.accuracy\.project\(lift\)"],
                   "counters": ["C15.odeint_stage_values_observed", "C15.operations"]},
        "assumptions": ["shadow = long-double matrix products / inverses / scaling-and-squaring exponentials of the same program; n counts every operation executed so far "
                        "(odeint: stage evaluations + steps)", "verdict covers only the executions sampled"],
    },
    "C18": {
        "units": [{"name": "c18_tsan", "src": "harness/c18.cpp", "flavor": "tsan", "shards": {"quick": 5, "thorough": 20}},
                  {"name": "c18_plain", "src": "harness/c18.cpp", "flavor": "plain", "shards": {"quick": 4, "thorough": 16}}],
        "post": c18_post,
        "rule": "cases = concurrent runs: 2..16 threads (creation/join is the only synchronisation) each looping over const operations on shared const objects "
                "(group/tangent functions on SE3/SO3/Galilei, rplus/rminus/dof on groups, VectorXd, std::vector<SO3>, variant, SubManifold, AnyManifold, "
                "Spline/BSpline evaluation, crop, arclength, sparse derivative routines reading the shared inline patterns, independent diff::dr / "
                "minimize / fit_spline / fit_bspline); the first case of every process performs the first use of all function-local statics inside the "
                "racing threads; 5 (quick) / 20 (thorough) independent TSan processes + a plain build; results compared with a sequential run made "
                "afterwards; distinct = distinct observed interleavings (hash of the thread ids in the merged order of iteration start times) of runs with real overlap",
        "floors": {"min_evaluations": {"quick": 20, "thorough": 400},
                   "cells": [r"tsan\.results_equal_sequential\|threads=16", r"tsan\.results_equal_sequential\|threads=2,", r"plain\.results_equal_sequential"],
                   "counters": ["C18.overlapping_operation_pairs", "C18.ops.submanifold_anymanifold", "C18.ops.sparse_derivatives", "C18.ops.diff_minimize_fit", "C18.tsan_processes"],
                   "ratios": [["C18.cases_with_overlap", "C18.cases_run", 0.8]]},
        "assumptions": ["only the schedules the OS produced are observed (plus ThreadSanitizer's happens-before generalisation over them)",
                        "ThreadSanitizer intercepts std::thread creation/join and the C++ static-initialisation guards; no other synchronisation exists in the monitor"],
    },
}
