"""Texts for MANIFEST.json (level claimed, trusted base, technique) per property."""

HOOK_COMMITS = ["ecd4ccc"]

NOT_APPLICABLE = {}

_ALG_NOTE = ("Trusted: the long-double oracle (oracle/, self-tested on every run: expm vs Rodrigues, log(exp), block-exponential "
             "Jacobians vs finite differences, jets), my reading of the documented layouts, g++ 12 sanitizer runtimes. "
             "Held-on-sampled-executions only: stratified PRNG inputs, no claim for inputs not generated.")

META = {
    "C01": {"text": "Exploration: every group operation of 26 instantiations (9 groups x float/double + 8 Bundles) is executed on 2k (quick) / 60k "
                    "(thorough) hostile element triples per type (identity, near-identity, half-turn with q_w = 0 or tiny, translations to 1e3) under "
                    "ASan+UBSan and compared with products/inverses of the documented matrices in long double at the stated 1e-12 / 1e-5.",
            "note": _ALG_NOTE, "technique": "runtime monitoring: reference-model oracle (long-double matrix group) + ASan/UBSan"},
    "C02": {"text": "Exploration: exp/log on tangent strata from 0 through the series switches to 50 rad and on elements incl. half-turns, against the "
                    "long-double matrix exponential (log judged through exp_ref(log_lib(g)) = matrix(g)); tolerances verbatim from the statement.",
            "note": _ALG_NOTE, "technique": "runtime monitoring: reference-model oracle (scaling-and-squaring expm) + ASan/UBSan"},
    "C03": {"text": "Exploration: Ad, ad, hat, vee, bracket against their matrix definitions (vee(M hat(e_j) M^-1), vee([hat a, hat b])) and the "
                    "consequences (homomorphism, Ad(exp a) = expm(ad a), antisymmetry, Jacobi) on the same strata.",
            "note": _ALG_NOTE, "technique": "runtime monitoring: reference-model oracle (definition-level adjoint) + ASan/UBSan"},
    "C04": {"text": "Exploration: dr_exp/dl_exp/dr_expinv/dl_expinv/dr_action/dr_rminus/dr_rminus_squarednorm against formula-free exact Jacobians "
                    "(top-right block of expm([[-ad,I],[0,0]]), LU inverse) uniformly in the rotation norm, at 1e-7 / 1e-2 of the largest entry.",
            "note": _ALG_NOTE, "technique": "runtime monitoring: reference-model oracle (block-exponential Jacobians) + ASan/UBSan"},
    "C05": {"text": "Exploration: d2r_exp/d2r_expinv/d2l_*/d2r_rminus(_squarednorm) against Frechet block-exponential Hessians in the documented layout "
                    "(1e-5 of the largest entry, double); d_matrix_product and d2_fog against index-loop definitions and exact finite differences of "
                    "quartic maps, static/dynamic/sparse.",
            "note": _ALG_NOTE, "technique": "runtime monitoring: reference-model oracle (Frechet block exponential) + ASan/UBSan"},
    "C06": {"text": "Exploration: each LieGroupBase member of 8 (thorough 12) Bundle compositions is compared with the same call on part<i>() arranged by "
                    "independent prefix sums (<= 2 ulp, exact zeros outside the blocks, Hessian block placement); fixed/dynamic vectors and scalars are "
                    "checked to be the additive group exactly.",
            "note": "Parts are the reference (they are judged by C01-C05); offsets come from the oracle layouts. Sampled executions only.",
            "technique": "runtime monitoring: differential monitor bundle-vs-parts with independent bookkeeping + ASan/UBSan"},
    "C17": {"text": "Exploration: SE_K_3<1> vs SE3 operation-for-operation (<= 4 ulp of the largest entry), SE_K_3<2> vs Galilei at tau = 0 through the "
                    "documented embedding, lifts/projections as homomorphisms against explicit matrix embeddings, C1 factorisation, rot_x/y/z vs expm, "
                    "quaternion/isometry/complex/Euler (12 conventions) round trips, SO2 angle ranges and congruence incl. signed zeros and atan2 cuts.",
            "note": _ALG_NOTE, "technique": "runtime monitoring: differential + reference-model oracle over hostile inputs, ASan/UBSan"},
    "C20": {"text": "Exploration + exhaustive sub-sweep: all basis matrices for K = 0..10 against long-double definitions (binomials, Cox-de Boor, "
                    "recurrences, cos(n acos x)), LGR exactness for 1..16 nodes, integrate_absolute_polynomial against exact piecewise antiderivatives "
                    "on hostile coefficient strata, binary_interval_search exhaustively on all sorted ranges of length <= 8 over 5 letters x 22 queries "
                    "x 3 element types (plus float/int ranges with double queries, deque, span) and random clustered ranges under UBSan (pivot cast).",
            "note": "Definitions re-implemented in long double in the harness; UBSan/ASan runtimes; sampled executions (search sweep exhaustive up to length 8).",
            "technique": "runtime monitoring: definition-level oracle, exhaustive small-scope sweep for the search, ASan/UBSan"},
    "C10": {"text": "Exploration: solve_linear_ldlt / solve_trust_region on 6k (quick) / 200k (thorough) random regularised least-squares problems "
                    "(all shapes up to 40x40, dense + sparse, exact rank deficiency, 12 decades of lambda and d): normal-equation backward error in long "
                    "double, dense-vs-sparse and distance to the long-double minimiser (cond <= 1e8, Jacobi eigenvalues), dphi against the exact "
                    "derivative formula at the returned dx, no increase of the linearised cost, colwise_norm against its definition.",
            "note": "Reference = long-double normal equations (full-pivot LU) and Jacobi eigenvalues for the condition number; known finding F12/F13 "
                    "(sparse path on numerically singular systems) is listed in known_findings.json and suppressed only inside cond > 1e15.",
            "technique": "runtime monitoring: reference-model oracle (long-double linear algebra) on random and degenerate systems, ASan/UBSan"},
    "C09": {"text": "Exploration over histories: ~2.2k (quick) / 60k (thorough) monitored solves over 11 problem families x 4 differentiation modes x "
                    "random options. The callback event stream is checked for: first event = start, non-increasing cost (re-evaluated by the monitor), "
                    "<= 1 accepted step per iteration, final arguments = last iterate, not worse than start, iter <= max_iter, status truthful "
                    "(deterministic re-run with max_iter+5 from a clone of the strategy state), and distance to the independent minimiser <= 1e-3 for "
                    "Ftol/Ptol results of the well-conditioned families.",
            "note": "Minimiser claim only for freshly constructed strategies and ptol, ftol <= 1e-6 (a radius inherited from an unrelated solve can stop "
                    "the iteration early with Ptol; judged outside the statement, see DESIGN.md). Cost re-evaluated in double with the same functor.",
            "technique": "runtime monitoring: history checker over callback events + independent minimisers (long-double normal equations, generating transform), ASan/UBSan"},
    "C08": {"text": "Exploration: diff::dr<0|1|2, Numerical|Analytic|Default> on a function family whose value, Jacobian and Hessian are recomputed "
                    "from the documented matrix groups in long double (4th-order central differences with right perturbations), over argument kinds "
                    "(group, vector, scalar, std::vector<G>, Bundle; const and non-const references), all index subsets incl. unsorted, and a counting "
                    "callable for the verbatim/called-once contract; arguments are snapshotted before/after every call (1e-15 bound).",
            "note": "Exact derivatives come from extended-precision finite differences of an oracle re-implementation of each function; statement tolerances "
                    "(1e-4, 5e-2, 1e-15) verbatim, with derivatives smaller than 1 judged absolutely (the statement speaks of O(1) derivatives).",
            "technique": "runtime monitoring: reference-model oracle (extended-precision differentiation) + argument snapshots + call counters, ASan/UBSan"},
    "C07": {"text": "Exploration: the manifold axioms (rminus(rplus(m,a),m)=a, rplus(m,rminus(m2,m))=m2, rminus(m,m)=0, dof = tangent length, "
                    "independent copies and same-scalar casts) on 21 Manifold models; element-wise action of std::vector<M> and std::variant on "
                    "consecutive tangent segments (bit-equal to the element calls); SubManifold over 5 base types with every fixed-dimension subset for "
                    "dof <= 6 (value/origin/fixed dims kept, free-only motion, gather/scatter against the harness' own bookkeeping); AnyManifold deep copies.",
            "note": "Element-wise references are the library's own per-element calls (judged by C01-C02); segment bookkeeping is the harness'. Sampled executions only.",
            "technique": "runtime monitoring: axiom monitors + differential container-vs-element checks with bitwise snapshots, ASan/UBSan"},
    "C19": {"text": "Exploration: ad_sparse/dr_exp_sparse/dr_expinv_sparse/d2r_exp_sparse/d2r_expinv_sparse into host matrices that contain the shifted "
                    "published pattern plus random sentinel entries, at block offsets 0..12; value/inner/outer arrays are snapshotted before and after: "
                    "block == dense exactly (missing pattern entries count as zeros), sentinels untouched, structure and compression unchanged; the "
                    "union of dense non-zeros over all sampled a must lie inside the pattern; two TUs odr-use the inline patterns in opposite orders "
                    "(a crash before main is reported as a static-init violation).",
            "note": "Dense routines are the value reference (they are judged by C03-C05). ASan catches the reallocation a missing pattern entry would cause through coeffRef; library asserts (isCompressed) are active.",
            "technique": "runtime monitoring: guard/sentinel snapshots of sparse storage + differential dense-vs-sparse, ASan/UBSan"},
    "C16": {"text": "Exploration with three independent memory monitors: views over caller-owned sentinel arenas at every scalar offset of a cache line "
                    "with ASan-poisoned surroundings (stray accesses abort with a stack), byte-exact sentinel comparison of everything outside the "
                    "range each call may write (whole object, or only the sub-range of so2()/so3()/r2()/r3()/r3_v()/r3_p()/r1_t()/r3<k>()/part<i>()), "
                    "and const views on PROT_READ pages flush against PROT_NONE pages (any write or over-read is a SIGSEGV attributed to the case). "
                    "Values: every const operation value vs Map vs const Map within 4 ulp; random mutating histories replayed on a plain value.",
            "note": "ASan shadow granularity (8 bytes) limits poisoning next to float views; the sentinel and page monitors cover that. Sampled executions only.",
            "technique": "runtime monitoring: ASan manual poisoning + sentinel snapshots + mprotect guard pages, differential value-vs-view histories"},
    "C11": {"text": "Exploration: cspline_eval_vs/gs value, velocity, acceleration and jerk against the product of long-double matrix exponentials "
                    "differentiated by order-3 matrix jets (no Ad-transport recursion), and cspline_eval_dg_dvs/dg_dgs with their velocity and "
                    "acceleration Jacobians against extended-precision central differences of that oracle with right perturbations; degrees 1..6, five "
                    "group types, Bernstein/B-spline/random bases, u at the ends and 1e-9 inside.",
            "note": _ALG_NOTE, "technique": "runtime monitoring: reference-model oracle (matrix jets + extended-precision differentiation), ASan/UBSan"},
    "C13": {"text": "Exploration: BSpline<K,G> against the cumulative B-spline definition (own Cox-de Boor basis, matrix jets) at random times, every knot "
                    "and knot +- 1 ulp, t_min/t_max and up to 1e3 spans outside, for K = 1..6; continuity of the orders <= K-1 across every interior "
                    "knot, local support (intervals outside i-K..i bit-equal after moving control point i), reproduction of constants with zero "
                    "derivatives, left-equivariance; ASan+UBSan watch the float->int64 interval index and the drop/take windows.",
            "note": _ALG_NOTE, "technique": "runtime monitoring: reference-model oracle + invariant monitors (continuity, locality, equivariance), ASan/UBSan"},
    "C12": {"text": "Exploration over histories: random programs (1..12 operations) of constructors (incl. empty splines with a start pose), +=, operator+, concat_global (also with the object itself as operand), make_local and crop over a register "
                    "file of splines; each library object is shadowed by an executable model (expression tree evaluated by the specification in long "
                    "double); after every operation value/velocity/acceleration are compared at 0, t_max, outside, random times, every knot and knot "
                    "+- 1 ulp, together with t_max, size, start, end, zero derivatives outside, FixedCubic's end conditions and arclength (commutative groups).",
            "note": "At junctions (within 1e-9 T) the specification is two-valued (concat_global jumps, crop boundaries on knots, zero-length operands): any "
                    "one-sided limit of the model is accepted for the value and derivatives are not judged there. Sampled histories only.",
            "technique": "runtime monitoring: history + executable model (shadow expression tree in long double), ASan/UBSan"},
    "C14": {"text": "Exploration: fit_spline_1d constraint residuals (interpolation, continuity up to InnCnt, boundary derivatives) rebuilt from the "
                    "documentation with an own Bernstein evaluation in long double over sampling rates 1e-2..1e2; fit_spline on five group types "
                    "(through the data from both sides, velocity continuity, rest-to-rest); dubins_curve<1..4> end pose, unit speed, curvature bound "
                    "and length against six oracle words that are validated by forward integration; fit_bspline span; reparameterize_spline "
                    "monotone / onto / start-speed bound with library assertions active.",
            "note": "Spline evaluation is trusted as judged by C12; the statement's 1e-6 (constraints) and 1e-9 (poses) are used verbatim. Sampled executions only.",
            "technique": "runtime monitoring: specification monitors with independent constraint/word oracles, ASan/UBSan + active library asserts"},
    "C15": {"text": "Exploration over histories with shadow execution: random programs over a register file and homogeneous chains up to 1e5 operations "
                    "are replayed on long-double matrices; after every operation the touched element is checked to be finite, unit to (n+1) 1e-14, "
                    "canonical (q_w >= 0) and within (n+1) 1e-13 of the shadow; constant-velocity integration through six odeint steppers and three "
                    "driver functions against x0 exp(T v), with every intermediate stage value observed through the SMOOTH_VERIF hook in the adaptor.",
            "note": "n is the number of operations executed so far in the program (the weakest reading of the bound). Shadow exponentials by scaling and squaring in "
                    "long double; hook H3 (compat/odeint.hpp) only observes. Sampled histories only.",
            "technique": "runtime monitoring: shadow execution (history + executable model) with invariant checks at an instrumentation hook, ASan/UBSan"},
    "C18": {"text": "Exploration of schedules under ThreadSanitizer: 5 (quick) / 20 (thorough) independent processes, each running cases with 2..16 threads "
                    "that loop over const operations on shared const objects with thread creation/join as the only synchronisation; every ThreadSanitizer "
                    "report whose stack contains a smooth frame is a violation (keyed by the outermost smooth frames), and every per-thread result is "
                    "compared bit-for-bit with a sequential run made afterwards (also in an uninstrumented build at full speed). The first case of each "
                    "process performs the first use of all function-local statics inside the racing threads. Evidence counts the overlapping "
                    "operation pairs actually observed.",
            "note": "Only schedules the OS produced (plus TSan's happens-before generalisation); the monitor itself uses no atomics/locks/barriers, only per-thread clock reads. "
                    "A TSan report without a smooth frame is counted separately (none observed).",
            "technique": "runtime monitoring: ThreadSanitizer + differential concurrent-vs-sequential result checking"},
}
