// Monitor C19: sparse Lie-group derivative routines equal the dense ones, touch only their block,
// never change the sparsity structure; published patterns are supersets of every non-zero.
#include "harness/gen.hpp"

#include <smooth/lie_sparse.hpp>

using namespace vh;

#ifndef TS
#define TS 0
#endif

static long NQ(const Report & rep, long quick, long thorough) { return rep.args.tier ? thorough : quick; }

template<typename S>
struct Snapshot
{
  std::vector<S> val;
  std::vector<int> inner, outer;
  long nnz;
  bool compressed;
  explicit Snapshot(const Eigen::SparseMatrix<S> & m)
      : val(m.valuePtr(), m.valuePtr() + m.nonZeros()), inner(m.innerIndexPtr(), m.innerIndexPtr() + m.nonZeros()),
        outer(m.outerIndexPtr(), m.outerIndexPtr() + m.outerSize() + 1), nnz(m.nonZeros()), compressed(m.isCompressed())
  {}
};

// union of dense non-zero positions seen so far, per (type, op)
static std::map<std::string, Mat> & seen_nz()
{
  static std::map<std::string, Mat> m;
  return m;
}

template<typename G, bool HESS>
struct SparseMon
{
  using S                 = smooth::Scalar<G>;
  static constexpr int N  = smooth::Dof<G>;
  using Tangent           = Eigen::Matrix<S, N, 1>;
  Report & rep;
  LayoutP lp;
  std::string T;
  explicit SparseMon(Report & r) : rep(r), lp(TI<G>::layout()), T(TI<G>::name()) {}

  // build a host matrix containing the shifted pattern plus random extra entries holding sentinels
  template<typename Place>
  Eigen::SparseMatrix<S> make_host(Rng & r, long rows, long cols, const Eigen::SparseMatrix<S> & pat, Place place, Mat & is_block)
  {
    Eigen::SparseMatrix<S> host(rows, cols);
    std::vector<Eigen::Triplet<S>> tr;
    is_block = Mat::Zero(rows, cols);
    for (int k = 0; k < pat.outerSize(); ++k)
      for (typename Eigen::SparseMatrix<S>::InnerIterator it(pat, k); it; ++it) {
        const auto [rr, cc] = place(it.row(), it.col());
        tr.emplace_back(rr, cc, S(777));
        is_block(rr, cc) = 1;
      }
    const double dens = r.coin(0.3) ? 0.0 : r.range(0.01, 0.3);
    const long budget = std::min<long>(400, long(dens * double(rows) * double(cols)));
    for (long e = 0; e < budget; ++e) {
      const long rr = r.below(int(rows)), cc = r.below(int(cols));
      if (is_block(rr, cc) == 0) {
        tr.emplace_back(rr, cc, S(1000 + r.below(1000)));
        is_block(rr, cc) = -1;  // extra entry (sentinel)
      }
    }
    host.setFromTriplets(tr.begin(), tr.end(), [](const S & a, const S &) { return a; });
    host.makeCompressed();
    return host;
  }

  // after the call: block equals dense; everything else untouched; structure unchanged
  template<typename Place>
  void verify(const std::string & op, const std::string & st, const Eigen::SparseMatrix<S> & host, const Snapshot<S> & before, const Mat & is_block,
    const Mat & dense, Place place, const std::function<std::string()> & det)
  {
    const Snapshot<S> after(host);
    rep.require(T + "." + op + ".compressed", st, after.compressed && before.compressed, det);
    rep.require(T + "." + op + ".structure_unchanged", st, after.nnz == before.nnz && after.inner == before.inner && after.outer == before.outer, det);
    if (!(after.nnz == before.nnz && after.inner == before.inner && after.outer == before.outer)) return;
    // stored entries outside the block keep their sentinel
    bool untouched = true;
    L worst        = 0;
    for (int k = 0; k < host.outerSize(); ++k)
      for (typename Eigen::SparseMatrix<S>::InnerIterator it(host, k); it; ++it) {
        if (is_block(it.row(), it.col()) < 0) {
          const long pos = long(&it.value() - host.valuePtr());
          if (!(it.value() == before.val[size_t(pos)])) untouched = false;
        }
      }
    rep.require(T + "." + op + ".others_untouched", st, untouched, det);
    // block values equal the dense result exactly, for every dense entry (entries missing from the pattern must be zero)
    for (int i = 0; i < dense.rows(); ++i)
      for (int j = 0; j < dense.cols(); ++j) {
        const auto [rr, cc] = place(i, j);
        const L got         = L(host.coeff(rr, cc)) * (is_block(rr, cc) > 0 ? 1 : 0);
        const L e           = fabsl(got - dense(i, j));
        if (!(e <= worst)) worst = (e == e) ? e : INFINITY;
      }
    rep.judge(T + "." + op + ".block_equals_dense", st, worst, 0, det);
  }

  void pattern_superset(const std::string & op, const Mat & dense, const Eigen::SparseMatrix<S> & pat, const std::function<std::string()> & det)
  {
    Mat & acc = seen_nz()[T + "." + op];
    if (acc.size() == 0) acc = Mat::Zero(dense.rows(), dense.cols());
    bool ok = pat.rows() == dense.rows() && pat.cols() == dense.cols();
    Mat inpat = Mat::Zero(dense.rows(), dense.cols());
    if (ok)
      for (int k = 0; k < pat.outerSize(); ++k)
        for (typename Eigen::SparseMatrix<S>::InnerIterator it(pat, k); it; ++it) inpat(it.row(), it.col()) = 1;
    for (int i = 0; i < dense.rows() && ok; ++i)
      for (int j = 0; j < dense.cols(); ++j)
        if (dense(i, j) != 0) {
          acc(i, j) = 1;
          if (inpat(i, j) == 0) ok = false;
        }
    rep.require(T + "." + op + ".pattern_superset", "all", ok, det);
  }

  void run()
  {
    rep.run_stream(T + ".sparse", NQ(rep, 500, 15000), [&](Rng & r, long) {
      static const int modes[] = {R_ZERO, R_TINY, R_BAND, R_BAND, R_GENERIC, R_GENERIC, R_INV_NEARPI, R_MODERATE};
      Vec a = gen_tangent<S>(*lp, r, modes[r.below(8)], r.below(3));
      if (r.coin(0.2)) {  // single-axis tangents
        const int k = r.below(N);
        const L v   = a(k);
        a.setZero();
        a(k) = v;
      }
      const Tangent as = a.template cast<S>();
      const TInfo ti   = classify_tangent(*lp, a);
      const bool inv_ok = ti.rotmax <= PI_L - 1e-3L;
      const long i0 = r.below(13), extra = r.below(10);
      const long nh = i0 + N + extra;  // host size (<= 40 for the groups used)
      const std::string st = ti.label() + ",i0=" + std::to_string(i0);
      auto det = [&]() { return JObj().str("type", T).raw("a", hexv(a)).integer("i0", i0).integer("host", nh).done(); };
      rep.note_input(Report::hash_vec(a, uint64_t(i0 * 64 + extra)), a.norm() > 0);

      // ---- ad_sparse: the host is exactly the published pattern (plus optional extra stored zeros inside it)
      {
        Eigen::SparseMatrix<S> sp = smooth::ad_sparse_pattern<G>;
        const Snapshot<S> before(sp);
        smooth::ad_sparse<G>(sp, as);
        const Snapshot<S> after(sp);
        const Mat dense = toL(smooth::ad<G>(as));
        rep.require(T + ".ad_sparse.compressed", st, after.compressed, det);
        rep.require(T + ".ad_sparse.structure_unchanged", st, after.nnz == before.nnz && after.inner == before.inner && after.outer == before.outer, det);
        rep.judge(T + ".ad_sparse.equals_dense", st, orc::maxabs(toL(Eigen::Matrix<S, N, N>(sp)) - dense), 0, det);
        pattern_superset("ad", dense, smooth::ad_sparse_pattern<G>, det);
        // second call on the same matrix (values from the previous call must not leak)
        const Vec b      = gen_tangent<S>(*lp, r, R_GENERIC, 1);
        smooth::ad_sparse<G>(sp, Tangent(b.template cast<S>()));
        rep.judge(T + ".ad_sparse.reuse", st, orc::maxabs(toL(Eigen::Matrix<S, N, N>(sp)) - toL(smooth::ad<G>(Tangent(b.template cast<S>())))), 0, det);
      }
      // ---- dr_exp_sparse / dr_expinv_sparse
      {
        auto place = [&](long rr, long cc) { return std::pair<long, long>{i0 + rr, i0 + cc}; };
        Mat is_block;
        Eigen::SparseMatrix<S> host = make_host(r, nh, nh + r.below(4), smooth::d_exp_sparse_pattern<G>, place, is_block);
        {
          const Snapshot<S> before(host);
          smooth::dr_exp_sparse<G>(host, as, i0);
          const Mat dense = toL(smooth::dr_exp<G>(as));
          verify("dr_exp_sparse", st, host, before, is_block, dense, place, det);
          pattern_superset("dr_exp", dense, smooth::d_exp_sparse_pattern<G>, det);
        }
        if (inv_ok) {
          const Snapshot<S> before(host);
          smooth::dr_expinv_sparse<G>(host, as, i0);
          const Mat dense = toL(smooth::dr_expinv<G>(as));
          verify("dr_expinv_sparse", st, host, before, is_block, dense, place, det);
          pattern_superset("dr_expinv", dense, smooth::d_exp_sparse_pattern<G>, det);
        }
      }
      // ---- d2r_exp_sparse / d2r_expinv_sparse: host is n x n*n (Hessian layout of the host variable set)
      if constexpr (HESS) {
        auto place = [&](long rr, long cc) { return std::pair<long, long>{i0 + rr, nh * (i0 + cc / N) + i0 + (cc % N)}; };
        Mat is_block;
        Eigen::SparseMatrix<S> host = make_host(r, nh, nh * nh, smooth::d2_exp_sparse_pattern<G>, place, is_block);
        {
          const Snapshot<S> before(host);
          smooth::d2r_exp_sparse<G>(host, as, i0);
          const Mat dense = toL(smooth::d2r_exp<G>(as));
          verify("d2r_exp_sparse", st, host, before, is_block, dense, place, det);
          pattern_superset("d2r_exp", dense, smooth::d2_exp_sparse_pattern<G>, det);
        }
        if (inv_ok) {
          const Snapshot<S> before(host);
          smooth::d2r_expinv_sparse<G>(host, as, i0);
          const Mat dense = toL(smooth::d2r_expinv<G>(as));
          verify("d2r_expinv_sparse", st, host, before, is_block, dense, place, det);
          pattern_superset("d2r_expinv", dense, smooth::d2_exp_sparse_pattern<G>, det);
        }
      }
    });
    // pattern tightness is reported as evidence (not a verdict): how many pattern entries were ever non-zero
    for (auto & [k, acc] : seen_nz())
      if (k.rfind(T + ".", 0) == 0) rep.count("C19.nonzero_positions_seen." + k, long(acc.sum()));
  }
};

int main(int argc, char ** argv)
{
  Args args = parse_args(argc, argv);
  Report rep(args);
  using namespace smooth;
  using V2d = Eigen::Vector2d;
  using V3d = Eigen::Vector3d;
#if TS == 0
  // bundle patterns are odr-used BEFORE the patterns of their parts in this translation unit
  SparseMon<Bundle<SE2d, V2d, SO3d>, true>(rep).run();
  SparseMon<Bundle<SO3d, Bundle<SE3d, C1d>>, true>(rep).run();
  SparseMon<SO2d, true>(rep).run();
  SparseMon<SO3d, true>(rep).run();
  SparseMon<SE2d, true>(rep).run();
  SparseMon<SE3d, true>(rep).run();
  SparseMon<C1d, true>(rep).run();
  SparseMon<V3d, true>(rep).run();
#else
  // parts first, bundles afterwards; float instantiations; groups without Hessians (ad / dr_exp only)
  SparseMon<SO3f, true>(rep).run();
  SparseMon<SE2f, true>(rep).run();
  SparseMon<SE3f, true>(rep).run();
  SparseMon<Galileid, false>(rep).run();
  SparseMon<SE_K_3<double, 2>, false>(rep).run();
  SparseMon<Bundle<SE3f, SO3f>, true>(rep).run();
  SparseMon<Bundle<V3d, SE2d, SO2d>, true>(rep).run();
  SparseMon<Bundle<Galileid, V2d>, false>(rep).run();
#endif
  rep.write();
  return 0;
}
