// Monitor C07: manifold axioms for every Manifold model (groups, vectors, scalars, std::vector<M>,
// std::variant<...>, SubManifold, AnyManifold).
#include <variant>

#include "harness/gen.hpp"

#include <smooth/manifolds.hpp>
#include <smooth/manifolds/any.hpp>
#include <smooth/manifolds/submanifold.hpp>

using namespace vh;

static long NQ(const Report & rep, long quick, long thorough) { return rep.args.tier ? thorough : quick; }

// ------------------------------------------------------------------ flatten a manifold value to numbers
// (group leaves are flattened through the documented matrix so that q and -q compare equal)
template<typename M>
struct Flat;

template<typename M>
static void flat_into(const M & m, std::vector<L> & out)
{
  Flat<M>::run(m, out);
}
template<typename M>
static std::vector<L> flat(const M & m)
{
  std::vector<L> out;
  flat_into(m, out);
  return out;
}
// raw storage bits (for independence-of-copies checks)
template<typename M>
struct Raw;
template<typename M>
static std::vector<double> raw(const M & m)
{
  std::vector<double> out;
  Raw<M>::run(m, out);
  return out;
}

template<typename G>
  requires requires { TI<G>::layout(); }
struct Flat<G>
{
  static void run(const G & g, std::vector<L> & out)
  {
    if constexpr (smooth::MatrixType<G>) {
      for (int i = 0; i < g.size(); ++i) out.push_back(g(i));
    } else {
      const Mat M = TI<G>::layout()->matrix(toL(g.coeffs()));
      for (int i = 0; i < M.rows(); ++i)
        for (int j = 0; j < M.cols(); ++j) out.push_back(M(i, j));
    }
  }
};
template<typename G>
  requires requires { TI<G>::layout(); }
struct Raw<G>
{
  static void run(const G & g, std::vector<double> & out)
  {
    if constexpr (smooth::MatrixType<G>) {
      for (int i = 0; i < g.size(); ++i) out.push_back(double(g(i)));
    } else {
      for (int i = 0; i < g.coeffs().size(); ++i) out.push_back(double(g.coeffs()(i)));
    }
  }
};
template<typename S>
struct Flat<Eigen::Matrix<S, -1, 1>>
{
  static void run(const Eigen::Matrix<S, -1, 1> & g, std::vector<L> & out)
  {
    for (int i = 0; i < g.size(); ++i) out.push_back(g(i));
  }
};
template<typename S>
struct Raw<Eigen::Matrix<S, -1, 1>>
{
  static void run(const Eigen::Matrix<S, -1, 1> & g, std::vector<double> & out)
  {
    for (int i = 0; i < g.size(); ++i) out.push_back(double(g(i)));
  }
};
template<>
struct Flat<double>
{
  static void run(double g, std::vector<L> & out) { out.push_back(g); }
};
template<>
struct Flat<float>
{
  static void run(float g, std::vector<L> & out) { out.push_back(g); }
};
template<>
struct Raw<double>
{
  static void run(double g, std::vector<double> & out) { out.push_back(g); }
};
template<>
struct Raw<float>
{
  static void run(float g, std::vector<double> & out) { out.push_back(g); }
};
template<typename M>
struct Flat<std::vector<M>>
{
  static void run(const std::vector<M> & v, std::vector<L> & out)
  {
    out.push_back(L(v.size()));
    for (auto & e : v) flat_into(e, out);
  }
};
template<typename M>
struct Raw<std::vector<M>>
{
  static void run(const std::vector<M> & v, std::vector<double> & out)
  {
    out.push_back(double(v.size()));
    for (auto & e : v) Raw<M>::run(e, out);
  }
};
template<typename... Ms>
struct Flat<std::variant<Ms...>>
{
  static void run(const std::variant<Ms...> & v, std::vector<L> & out)
  {
    out.push_back(L(v.index()));
    std::visit([&](const auto & x) { flat_into(x, out); }, v);
  }
};
template<typename... Ms>
struct Raw<std::variant<Ms...>>
{
  static void run(const std::variant<Ms...> & v, std::vector<double> & out)
  {
    out.push_back(double(v.index()));
    std::visit([&](const auto & x) { Raw<std::decay_t<decltype(x)>>::run(x, out); }, v);
  }
};
template<typename M>
struct Flat<smooth::SubManifold<M>>
{
  static void run(const smooth::SubManifold<M> & s, std::vector<L> & out)
  {
    flat_into(s.m(), out);
    flat_into(s.m0(), out);
    for (int i = 0; i < s.fixed_dims().size(); ++i) out.push_back(s.fixed_dims()(i));
  }
};
template<typename M>
struct Raw<smooth::SubManifold<M>>
{
  static void run(const smooth::SubManifold<M> & s, std::vector<double> & out)
  {
    Raw<M>::run(s.m(), out);
    Raw<M>::run(s.m0(), out);
    for (int i = 0; i < s.fixed_dims().size(); ++i) out.push_back(s.fixed_dims()(i));
  }
};

static L vdist(const std::vector<L> & a, const std::vector<L> & b)
{
  if (a.size() != b.size()) return INFINITY;
  L d = 0, m = 1;
  for (size_t i = 0; i < a.size(); ++i) {
    d = std::max(d, fabsl(a[i] - b[i]));
    m = std::max(m, fabsl(b[i]));
    if (!(a[i] == a[i])) return INFINITY;
  }
  return d / m;
}

// ------------------------------------------------------------------ generators per model
template<typename M>
struct Gen;  // static M value(Rng&); static Eigen::VectorX<Scalar> tangent(const M&, Rng&)

template<typename G>
  requires requires { TI<G>::layout(); } && (!smooth::MatrixType<G>)
struct Gen<G>
{
  using S = typename G::Scalar;
  static G value(Rng & r)
  {
    static const int am[] = {R_ZERO, R_TINY, R_BAND, R_GENERIC, R_GENERIC, R_NEARPI, R_INV_NEARPI};
    return make_elem<G>(gen_coeffs<S>(*TI<G>::layout(), r, am[r.below(7)], r.below(4)));
  }
  static Eigen::Matrix<S, -1, 1> tangent(const G &, Rng & r)
  {
    static const int rm[] = {R_ZERO, R_TINY, R_BAND, R_GENERIC, R_GENERIC, R_INV_NEARPI};
    return gen_tangent<S>(*TI<G>::layout(), r, rm[r.below(6)], r.below(3)).template cast<S>();
  }
};
template<typename S, int N>
  requires(N > 0)
struct Gen<Eigen::Matrix<S, N, 1>>
{
  using V = Eigen::Matrix<S, N, 1>;
  static V value(Rng & r)
  {
    const int m = r.below(4);
    return V::NullaryExpr([&]() { return S(rand_tr(r, m)); });
  }
  static Eigen::Matrix<S, -1, 1> tangent(const V &, Rng & r)
  {
    const int m = r.below(4);
    return Eigen::Matrix<S, -1, 1>::NullaryExpr(N, [&]() { return S(rand_tr(r, m)); });
  }
};
template<typename S>
struct Gen<Eigen::Matrix<S, -1, 1>>
{
  using V = Eigen::Matrix<S, -1, 1>;
  static V value(Rng & r)
  {
    const int n = r.below(9), m = r.below(4);
    return V::NullaryExpr(n, [&]() { return S(rand_tr(r, m)); });
  }
  static V tangent(const V & x, Rng & r)
  {
    const int m = r.below(4);
    return V::NullaryExpr(x.size(), [&]() { return S(rand_tr(r, m)); });
  }
};
template<typename S>
  requires std::is_floating_point_v<S>
struct Gen<S>
{
  static S value(Rng & r) { return S(rand_tr(r, r.below(4))); }
  static Eigen::Matrix<S, -1, 1> tangent(S, Rng & r)
  {
    Eigen::Matrix<S, -1, 1> a(1);
    a(0) = S(rand_tr(r, r.below(4)));
    return a;
  }
};
template<typename M>
struct Gen<std::vector<M>>
{
  using S = smooth::Scalar<M>;
  static std::vector<M> value(Rng & r)
  {
    std::vector<M> v;
    const int n = r.below(9) == 0 ? 0 : r.below(9);
    for (int i = 0; i < n; ++i) v.push_back(Gen<M>::value(r));
    return v;
  }
  static Eigen::Matrix<S, -1, 1> tangent(const std::vector<M> & v, Rng & r)
  {
    Eigen::Matrix<S, -1, 1> a(smooth::dof(v));
    Eigen::Index at = 0;
    for (auto & e : v) {
      const auto ai = Gen<M>::tangent(e, r);
      a.segment(at, ai.size()) = ai;
      at += ai.size();
    }
    return a;
  }
};
template<typename... Ms>
struct Gen<std::variant<Ms...>>
{
  using V = std::variant<Ms...>;
  using S = smooth::Scalar<V>;
  template<size_t I>
  static V make(Rng & r)
  {
    return V(std::in_place_index<I>, Gen<std::variant_alternative_t<I, V>>::value(r));
  }
  static V value(Rng & r)
  {
    const size_t k = size_t(r.below(int(sizeof...(Ms))));
    V out          = make<0>(r);
    [&]<size_t... I>(std::index_sequence<I...>) { ((k == I ? (out = make<I>(r), 0) : 0), ...); }(std::make_index_sequence<sizeof...(Ms)>{});
    return out;
  }
  static Eigen::Matrix<S, -1, 1> tangent(const V & v, Rng & r)
  {
    return std::visit([&](const auto & x) -> Eigen::Matrix<S, -1, 1> { return Gen<std::decay_t<decltype(x)>>::tangent(x, r); }, v);
  }
};

template<typename M>
struct Gen<smooth::SubManifold<M>>
{
  using S = smooth::Scalar<M>;
  static smooth::SubManifold<M> value(Rng & r)
  {
    const M m0 = Gen<M>::value(r);
    const M m  = smooth::rplus(m0, Gen<M>::tangent(m0, r));
    std::vector<int> fixed;
    for (int i = 0; i < int(smooth::dof(m0)); ++i)
      if (r.coin(0.4)) fixed.push_back(i);
    Eigen::VectorXi fd(long(fixed.size()));
    for (size_t i = 0; i < fixed.size(); ++i) fd(long(i)) = fixed[i];
    return smooth::SubManifold<M>(m0, m, fd);
  }
  static Eigen::Matrix<S, -1, 1> tangent(const smooth::SubManifold<M> & x, Rng & r)
  {
    return Eigen::Matrix<S, -1, 1>::NullaryExpr(x.dof(), [&]() { return S(0.3 * r.sym()); });
  }
};

// ------------------------------------------------------------------ generic axioms
template<typename M>
static void axioms(Report & rep, const std::string & T, long n)
{
  using S     = smooth::Scalar<M>;
  const L tol = std::is_same_v<S, float> ? 1e-3L : 1e-9L;
  rep.run_stream(T + ".axioms", n, [&](Rng & r, long) {
    const M m = Gen<M>::value(r);
    const auto a = Gen<M>::tangent(m, r);
    auto det = [&]() { return JObj().str("type", T).raw("m_raw", jhexvec(Eigen::Map<const Eigen::VectorXd>(raw(m).data(), long(raw(m).size())))).raw("a", hexv(toL(a))).done(); };
    {
      uint64_t h = Report::hash_vec(toL(a));
      for (double x : raw(m)) h = hash_bytes(&x, sizeof x, h);
      rep.note_input(h, a.size() > 0 && a.norm() > 0);
    }
    const std::string st = "dof=" + std::to_string(smooth::dof(m));
    // dof is the tangent length
    rep.require(T + ".dof_is_tangent_length", st, smooth::dof(m) == a.size(), det);
    const M mp = smooth::rplus(m, a);
    const auto back = smooth::rminus(mp, m);
    rep.require(T + ".rminus_length", st, back.size() == smooth::dof(m), det);
    rep.judge(T + ".rminus(rplus(m,a),m)=a", st, orc::err_rel1(toL(back), toL(a)), tol, det);
    const auto zero = smooth::rminus(m, m);
    {
      // log(m^-1 m): m^-1 m is formed from intermediates of size |m|^2 (e.g. tau * v in Galilei), which sets the rounding scale
      L sc = 1;
      for (double x : raw(m)) sc = std::max(sc, fabsl(L(x)));
      rep.judge(T + ".rminus(m,m)=0", st, zero.size() ? orc::maxabs(toL(zero)) : 0, (std::is_same_v<S, float> ? 1e-5L : 1e-13L) * sc * sc, det);
    }
    // second element of the same shape: m2 = m (+) b with b inside the injectivity radius
    const auto b = Gen<M>::tangent(m, r);
    const M m2   = smooth::rplus(m, b);
    const M m2b  = smooth::rplus(m, smooth::rminus(m2, m));
    rep.judge(T + ".rplus(m,rminus(m2,m))=m2", st, vdist(flat(m2b), flat(m2)), tol, det);
    // copies are independent and behave identically
    {
      M orig       = m;
      M copy       = orig;
      const auto before = raw(copy);
      orig         = smooth::rplus(orig, a);  // mutate the original
      rep.require(T + ".copy_independent", st, raw(copy) == before, det);
      rep.require(T + ".copy_behaves_identically", st, raw(smooth::rplus(copy, a)) == raw(mp), det);
    }
    if constexpr (!std::is_same_v<M, smooth::AnyManifold>) {
      const auto c = smooth::cast<S>(m);
      rep.require(T + ".cast_same_scalar_equal", st, raw(c) == raw(m), det);
      rep.require(T + ".cast_behaves_identically", st, raw(smooth::rplus(c, a)) == raw(mp), det);
    }
  });
}

// container models act element-wise on consecutive tangent segments
template<typename M>
static void vector_elementwise(Report & rep, const std::string & T, long n)
{
  using V = std::vector<M>;
  rep.run_stream(T + ".elementwise", n, [&](Rng & r, long) {
    const V v = Gen<V>::value(r);
    const auto a = Gen<V>::tangent(v, r);
    const V w    = smooth::rplus(v, a);
    V v2         = v;
    for (auto & e : v2) e = smooth::rplus(e, Gen<M>::tangent(e, r));
    const auto d = smooth::rminus(v2, v);
    auto det = [&]() { return JObj().str("type", T).integer("size", (long long)v.size()).raw("a", hexv(toL(a))).done(); };
    rep.note_input(Report::hash_vec(toL(a), v.size()), !v.empty());
    const std::string st = "size=" + std::to_string(v.size());
    bool ok_plus = w.size() == v.size(), ok_minus = d.size() == smooth::dof(v);
    Eigen::Index at = 0;
    for (size_t i = 0; i < v.size() && ok_plus && ok_minus; ++i) {
      const auto di = smooth::dof(v[i]);
      ok_plus       = ok_plus && raw(w[i]) == raw(smooth::rplus(v[i], a.segment(at, di).eval()));
      const auto ri = smooth::rminus(v2[i], v[i]);
      ok_minus      = ok_minus && (toL(d.segment(at, di).eval()) - toL(ri)).norm() == 0;
      at += di;
    }
    rep.require(T + ".rplus_elementwise", st, ok_plus, det);
    rep.require(T + ".rminus_elementwise", st, ok_minus && at == smooth::dof(v), det);
    rep.require(T + ".dof_is_sum", st, smooth::dof(v) == at, det);
  });
}

template<typename V>
static void variant_alternatives(Report & rep, const std::string & T, long n)
{
  rep.run_stream(T + ".alternatives", n, [&](Rng & r, long) {
    const V v    = Gen<V>::value(r);
    const auto a = Gen<V>::tangent(v, r);
    const V w    = smooth::rplus(v, a);
    auto det     = [&]() { return JObj().str("type", T).integer("index", (long long)v.index()).raw("a", hexv(toL(a))).done(); };
    rep.note_input(Report::hash_vec(toL(a), v.index()), true);
    const std::string st = "alt=" + std::to_string(v.index());
    rep.require(T + ".alternative_preserved", st, w.index() == v.index(), det);
    const bool same = std::visit(
      [&](const auto & x) {
        using X = std::decay_t<decltype(x)>;
        return raw(std::get<X>(w)) == raw(smooth::rplus(x, a)) && smooth::dof(v) == smooth::dof(x)
            && (toL(smooth::rminus(w, v)) - toL(smooth::rminus(std::get<X>(w), x))).norm() == 0;
      },
      v);
    rep.require(T + ".acts_as_alternative", st, same, det);
  });
}

// SubManifold: moves only along free directions, reports only them, keeps its origin
template<typename M>
static void submanifold(Report & rep, const std::string & T, long n)
{
  using SM = smooth::SubManifold<M>;
  using S  = smooth::Scalar<M>;
  rep.run_stream(T + ".submanifold", n, [&](Rng & r, long idx) {
    const M m0 = Gen<M>::value(r);
    const M m  = smooth::rplus(m0, Gen<M>::tangent(m0, r));
    const int full = int(smooth::dof(m0));
    // fixed dims: every subset for small dof (enumerated by case index), random subset otherwise; unsorted order
    std::vector<int> fixed;
    if (full <= 6) {
      const long mask = idx % (1L << full);
      for (int i = 0; i < full; ++i)
        if (mask & (1L << i)) fixed.push_back(i);
    } else {
      for (int i = 0; i < full; ++i)
        if (r.coin(0.4)) fixed.push_back(i);
    }
    for (size_t i = fixed.size(); i > 1; --i) std::swap(fixed[i - 1], fixed[size_t(r.below(int(i)))]);  // shuffle: unsorted list
    Eigen::VectorXi fd(long(fixed.size()));
    for (size_t i = 0; i < fixed.size(); ++i) fd(long(i)) = fixed[i];
    std::vector<int> sorted = fixed;
    std::sort(sorted.begin(), sorted.end());
    std::vector<int> free_dims;
    for (int i = 0; i < full; ++i)
      if (!std::binary_search(sorted.begin(), sorted.end(), i)) free_dims.push_back(i);

    const SM sm(m0, m, fd);
    auto det = [&]() {
      return JObj().str("type", T).integer("full_dof", full).raw("fixed", jvec(fd)).raw("m_raw", jhexvec(Eigen::Map<const Eigen::VectorXd>(raw(m).data(), long(raw(m).size())))).done();
    };
    rep.note_input(Report::hash_vec(fd.cast<double>().eval(), hash_bytes(raw(m).data(), raw(m).size() * 8)), !free_dims.empty());
    const std::string st = "fixed=" + std::to_string(fixed.size()) + "/" + std::to_string(full);
    rep.require(T + ".sub.dof", st, sm.dof() == long(free_dims.size()) && smooth::dof(sm) == long(free_dims.size()), det);
    rep.require(T + ".sub.keeps_value_and_origin", st, raw(sm.m()) == raw(m) && raw(sm.m0()) == raw(m0), det);
    // tangent in the free directions
    Eigen::Matrix<S, -1, 1> a(long(free_dims.size()));
    for (long i = 0; i < a.size(); ++i) a(i) = S(0.3 * r.sym());
    Eigen::Matrix<S, -1, 1> afull = Eigen::Matrix<S, -1, 1>::Zero(full);
    for (size_t i = 0; i < free_dims.size(); ++i) afull(free_dims[i]) = a(long(i));
    const SM sp = smooth::rplus(sm, a);
    rep.require(T + ".sub.rplus_moves_free_only", st, raw(sp.m()) == raw(smooth::rplus(m, afull)), det);
    rep.require(T + ".sub.rplus_keeps_origin", st, raw(sp.m0()) == raw(m0), det);
    bool fd_same = sp.fixed_dims().size() == long(sorted.size());
    for (size_t i = 0; i < sorted.size() && fd_same; ++i) fd_same = sp.fixed_dims()(long(i)) == sorted[i];
    rep.require(T + ".sub.rplus_keeps_fixed_dims", st, fd_same, det);
    // differences are reported in the free directions only
    const auto d     = smooth::rminus(sp, sm);
    const auto dfull = smooth::rminus(sp.m(), sm.m());
    bool okd         = d.size() == long(free_dims.size());
    for (size_t i = 0; i < free_dims.size() && okd; ++i) okd = d(long(i)) == dfull(free_dims[i]);
    rep.require(T + ".sub.rminus_gathers_free", st, okd, det);
    rep.judge(T + ".sub.rminus(rplus)=a", st, a.size() ? orc::err_rel1(toL(d), toL(a)) : 0, 1e-9L, det);
    // fixed directions do not move: full difference vanishes on them
    L fixed_motion = 0;
    for (int i : sorted) fixed_motion = std::max(fixed_motion, fabsl(L(dfull(i))));
    rep.judge(T + ".sub.fixed_dirs_do_not_move", st, fixed_motion, 1e-9L, det);
    // copy / cast keep value, origin and fixed dims
    const SM cp = sm;
    rep.require(T + ".sub.copy_equal", st, raw(cp) == raw(sm), det);
    const auto cs = smooth::cast<S>(sm);
    rep.require(T + ".sub.cast_keeps_value", st, raw(cs.m()) == raw(sm.m()), det);
    rep.require(T + ".sub.cast_keeps_origin", st, raw(cs.m0()) == raw(sm.m0()), det);
  });
}

// AnyManifold wrapping M
template<typename M>
static void any_wrapping(Report & rep, const std::string & T, long n)
{
  rep.run_stream(T + ".any", n, [&](Rng & r, long) {
    const M m = Gen<M>::value(r);
    const Eigen::VectorXd a = Gen<M>::tangent(m, r).template cast<double>();
    const smooth::AnyManifold am(m);
    auto det = [&]() { return JObj().str("type", T).raw("a", hexv(a)).done(); };
    rep.note_input(Report::hash_vec(a, hash_bytes(raw(m).data(), raw(m).size() * 8)), a.size() > 0);
    const std::string st = "dof=" + std::to_string(smooth::dof(m));
    rep.require(T + ".any.dof", st, smooth::dof(am) == smooth::dof(m), det);
    const smooth::AnyManifold ap = smooth::rplus(am, a);
    rep.require(T + ".any.rplus", st, raw(ap.template get<M>()) == raw(smooth::rplus(m, a)), det);
    const Eigen::VectorXd d = smooth::rminus(ap, am);
    rep.require(T + ".any.rminus", st, (toL(d) - toL(smooth::rminus(ap.template get<M>(), m).template cast<double>().eval())).norm() == 0, det);
    rep.judge(T + ".any.rminus(rplus)=a", st, orc::err_rel1(toL(d), toL(a)), 1e-9L, det);
    // copies are deep
    smooth::AnyManifold orig(m);
    smooth::AnyManifold cp = orig;
    orig.template get<M>() = smooth::rplus(m, a);
    rep.require(T + ".any.copy_independent", st, raw(cp.template get<M>()) == raw(m), det);
    smooth::AnyManifold assigned(smooth::rplus(m, a));
    assigned = cp;
    cp.template get<M>() = smooth::rplus(m, a);
    rep.require(T + ".any.assignment_independent", st, raw(assigned.template get<M>()) == raw(m), det);
  });
}

int main(int argc, char ** argv)
{
  Args args = parse_args(argc, argv);
  Report rep(args);
  using namespace smooth;
  using V3d = Eigen::Vector3d;
  using VXd = Eigen::VectorXd;
  const long n = NQ(rep, 1500, 40000), ns = NQ(rep, 800, 20000);

  axioms<SO2d>(rep, "SO2d", n);
  axioms<SO3d>(rep, "SO3d", n);
  axioms<SE2d>(rep, "SE2d", n);
  axioms<SE3d>(rep, "SE3d", n);
  axioms<C1d>(rep, "C1d", n);
  axioms<Galileid>(rep, "Galileid", n);
  axioms<SE_K_3<double, 2>>(rep, "SE_2_3d", n);
  axioms<SO3f>(rep, "SO3f", n);
  axioms<SE3f>(rep, "SE3f", n);
  axioms<Bundle<SO3d, V3d, SE2d>>(rep, "B<SO3d,R3d,SE2d>", n);
  axioms<V3d>(rep, "R3d", n);
  axioms<VXd>(rep, "RXd", n);
  axioms<Eigen::VectorXf>(rep, "RXf", n);
  axioms<double>(rep, "double", n);
  axioms<float>(rep, "float", n);
  axioms<std::vector<SO3d>>(rep, "vector<SO3d>", ns);
  axioms<std::vector<VXd>>(rep, "vector<RXd>", ns);
  axioms<std::vector<std::vector<SE2d>>>(rep, "vector<vector<SE2d>>", ns);
  axioms<std::vector<double>>(rep, "vector<double>", ns);
  using Var = std::variant<SO3d, Eigen::Vector2d, SE2d, VXd>;
  axioms<Var>(rep, "variant<SO3d,R2d,SE2d,RXd>", ns);
  axioms<std::vector<Var>>(rep, "vector<variant>", ns);

  vector_elementwise<SO3d>(rep, "vector<SO3d>", ns);
  vector_elementwise<VXd>(rep, "vector<RXd>", ns);
  vector_elementwise<std::vector<SE2d>>(rep, "vector<vector<SE2d>>", ns);
  vector_elementwise<Var>(rep, "vector<variant>", ns);
  variant_alternatives<Var>(rep, "variant<SO3d,R2d,SE2d,RXd>", ns);

  submanifold<SO3d>(rep, "SO3d", ns);
  submanifold<SE3d>(rep, "SE3d", ns);
  submanifold<Bundle<SO3d, V3d, SE2d>>(rep, "B<SO3d,R3d,SE2d>", ns);
  submanifold<VXd>(rep, "RXd", ns);
  submanifold<V3d>(rep, "R3d", ns);

  any_wrapping<SO3d>(rep, "SO3d", ns);
  any_wrapping<VXd>(rep, "RXd", ns);
  any_wrapping<std::vector<SE2d>>(rep, "vector<SE2d>", ns);
  any_wrapping<SubManifold<SE3d>>(rep, "SubManifold<SE3d>", ns);

  rep.write();
  return 0;
}
