// Monitor C14: curve construction meets its specification (fit_spline, fit_spline_1d, dubins_curve,
// fit_bspline, reparameterize_spline).
#include "harness/spline_oracle.hpp"

#include <smooth/spline/dubins.hpp>
#include <smooth/spline/fit.hpp>
#include <smooth/spline/reparameterize.hpp>

using namespace vh;

#ifndef TS
#define TS 0
#endif

static long NQ(const Report & rep, long quick, long thorough) { return rep.args.tier ? thorough : quick; }

template<typename P>
static Mat elemL(const Layout & l, const P & p)
{
  if constexpr (smooth::MatrixType<P>) return l.matrix(toL(p));
  else return l.matrix(toL(p.coeffs()));
}

// strictly increasing stamps with sampling 1e-2..1e2 and bounded neighbour ratio
static std::vector<double> gen_stamps(Rng & r, int n, double max_ratio, double & base)
{
  base      = r.loguni(1e-2, 1e2);
  double dt = base;
  std::vector<double> ts = {r.coin() ? 0.0 : r.range(-50, 50)};
  for (int i = 1; i < n; ++i) {
    const double f = std::exp(r.range(-std::log(max_ratio), std::log(max_ratio)));
    dt             = std::min(1e2, std::max(1e-2, dt * f));
    ts.push_back(ts.back() + dt);
  }
  return ts;
}

// d-th derivative (w.r.t. u) at u of the Bernstein polynomial with coefficients beta
static L bern_deriv(const Mat & Bm, const Vec & beta, int d, L u)
{
  const Vec c         = Bm * beta;
  const std::vector<L> s = poly_taylor(c, u);
  L f = 1;
  for (int q = 2; q <= d; ++q) f *= q;
  return d <= 3 ? s[size_t(d)] * f : NAN;
}

// ------------------------------------------------------------------ A. fit_spline_1d constraints
template<typename SS>
static void fit1d(Report & rep, const std::string & name, double max_ratio, long n)
{
  constexpr int K = SS::Degree;
  const Mat Bm    = bernstein_matrix(K);
  rep.run_stream("fit_spline_1d." + name, n, [&](Rng & r, long) {
    const int np = 2 + r.below(39);
    double base;
    const std::vector<double> ts = gen_stamps(r, np, max_ratio, base);
    std::vector<double> dts, dxs;
    for (int i = 1; i < np; ++i) {
      dts.push_back(ts[size_t(i)] - ts[size_t(i - 1)]);
      dxs.push_back(r.coin(0.1) ? 0.0 : r.sym() * (r.coin(0.3) ? 10 : 1));
    }
    const SS ss{};
    const Eigen::VectorXd x = smooth::fit_spline_1d(dts, dxs, ss);
    const int N = np - 1;
    const std::string st = "dt:" + decade(base) + ",N=" + (N <= 3 ? std::to_string(N) : (N < 12 ? "4-11" : "12-39"));
    auto det = [&]() {
      return JObj().str("spec", name).integer("N", N).raw("dts", hexv(Eigen::Map<const Eigen::VectorXd>(dts.data(), N))).raw("dxs", hexv(Eigen::Map<const Eigen::VectorXd>(dxs.data(), N))).done();
    };
    rep.note_input(Report::hash_vec(Eigen::Map<const Eigen::VectorXd>(dts.data(), N), Report::hash_vec(Eigen::Map<const Eigen::VectorXd>(dxs.data(), N))), true);
    rep.require("fit_spline_1d." + name + ".size", st, x.size() == (K + 1) * N, det);
    if (x.size() != (K + 1) * N) return;
    auto beta = [&](int i) { return Vec(toL(x.segment(i * (K + 1), K + 1))); };
    L worst_val = 0, worst_cont = 0, worst_bnd = 0;
    bool finite = x.allFinite();
    for (int i = 0; i < N; ++i) {
      const Vec b = beta(i);
      const L sc  = std::max<L>(orc::maxabs(b), std::max<L>(fabsl(L(dxs[size_t(i)])), 1e-300L));
      worst_val   = std::max(worst_val, fabsl(bern_deriv(Bm, b, 0, 0)) / sc);
      worst_val   = std::max(worst_val, fabsl(bern_deriv(Bm, b, 0, 1) - L(dxs[size_t(i)])) / sc);
    }
    for (int i = 0; i + 1 < N; ++i)
      for (int d = 1; d <= SS::InnCnt; ++d) {
        const L a = bern_deriv(Bm, beta(i), d, 1) / powl(L(dts[size_t(i)]), d), b = bern_deriv(Bm, beta(i + 1), d, 0) / powl(L(dts[size_t(i + 1)]), d);
        // relative to the size of the terms entering the constraint
        L terms = 0;
        for (int j = 0; j <= K; ++j) {
          terms = std::max(terms, fabsl(beta(i)(j)) / powl(L(dts[size_t(i)]), d));
          terms = std::max(terms, fabsl(beta(i + 1)(j)) / powl(L(dts[size_t(i + 1)]), d));
        }
        worst_cont = std::max(worst_cont, fabsl(a - b) / std::max<L>(terms * K, 1e-300L));
      }
    for (size_t q = 0; q < ss.LeftDeg.size(); ++q) {
      const L v = bern_deriv(Bm, beta(0), ss.LeftDeg[q], 0) - L(ss.left_values[q](0));
      worst_bnd = std::max(worst_bnd, fabsl(v) / std::max<L>(orc::maxabs(beta(0)) * K * K, 1e-300L));
    }
    for (size_t q = 0; q < ss.RghtDeg.size(); ++q) {
      const L v = bern_deriv(Bm, beta(N - 1), ss.RghtDeg[q], 1) - L(ss.rght_values[q](0));
      worst_bnd = std::max(worst_bnd, fabsl(v) / std::max<L>(orc::maxabs(beta(N - 1)) * K * K, 1e-300L));
    }
    rep.require("fit_spline_1d." + name + ".finite", st, finite, det);
    rep.judge("fit_spline_1d." + name + ".interpolation", st, finite ? worst_val : INFINITY, 1e-6L, det);
    rep.judge("fit_spline_1d." + name + ".continuity", st, finite ? worst_cont : INFINITY, 1e-6L, det);
    rep.judge("fit_spline_1d." + name + ".boundary", st, finite ? worst_bnd : INFINITY, 1e-6L, det);
  });
}

// ------------------------------------------------------------------ B. fit_spline on groups
template<typename G, typename SS, bool ZeroEndVel>
static void fit_group(Report & rep, const std::string & name, long n)
{
  constexpr int K     = SS::Degree;
  const LayoutP lp    = TI<G>::layout();
  const Layout & l    = *lp;
  const std::string T = "fit_spline." + TI<G>::name() + "." + name;
  using Tangent       = Eigen::Matrix<double, smooth::Dof<G>, 1>;
  rep.run_stream(T, n, [&](Rng & r, long) {
    const int np = 2 + r.below(r.coin(0.7) ? 10 : 39);
    double base;
    // neighbouring intervals differ by <= 1e3 for the interpolating specifications, <= 10 for the derivative-minimising ones
    const std::vector<double> ts = gen_stamps(r, np, SS::OptDeg >= 0 ? 10 : 1e3, base);
    std::vector<G> gs;
    if constexpr (smooth::MatrixType<G>) gs.push_back(gen_tangent<double>(l, r, 0, T_SMALL).template cast<double>());
    else gs.push_back(make_elem<G>(gen_coeffs<double>(l, r, R_GENERIC, T_SMALL)));
    for (int i = 1; i < np; ++i) {
      Vec v = gen_tangent<double>(l, r, r.coin(0.2) ? R_BAND : R_MODERATE, r.coin(0.2) ? T_ZERO : T_SMALL);
      for (int k = 0; k < l.dof; ++k)
        if (fabsl(v(k)) > 1.5L) v(k) /= 3;
      gs.push_back(smooth::rplus(gs.back(), Tangent(v.template cast<double>())));
    }
    const auto spl = smooth::fit_spline(ts, gs, SS{});
    const std::string st = "dt:" + decade(base) + ",N=" + (np <= 4 ? std::to_string(np) : (np < 12 ? "5-11" : "12-40"));
    auto det = [&]() { return JObj().str("spec", name).integer("n", np).raw("ts", hexv(Eigen::Map<const Eigen::VectorXd>(ts.data(), np))).done(); };
    {
      uint64_t h = Report::hash_vec(Eigen::Map<const Eigen::VectorXd>(ts.data(), np));
      for (auto & g : gs) h = Report::hash_vec(elemL(l, g).reshaped(), h);
      rep.note_input(h, true);
    }
    const double T0 = ts.front();
    L vmax = 1e-3L;
    for (int i = 1; i < np; ++i) vmax = std::max(vmax, orc::maxabs(orc::log_ref(l, orc::inv(elemL(l, gs[size_t(i - 1)])) * elemL(l, gs[size_t(i)]))) / L(ts[size_t(i)] - ts[size_t(i - 1)]));
    rep.judge(T + ".t_max", st, fabsl(L(spl.t_max()) - (L(ts.back()) - L(T0))) / std::max<L>(1, L(ts.back()) - L(T0)), 1e-12L, det);
    L w_right = 0, w_left = 0, w_vjump = 0;
    for (int i = 0; i < np; ++i) {
      const double t = ts[size_t(i)] - T0;
      Tangent vr, vl, ar, al_;
      const G xr = spl(t, vr, ar);
      w_right    = std::max(w_right, orc::err_rel1(elemL(l, xr), elemL(l, gs[size_t(i)])));
      if (i > 0) {
        const double tl = std::nextafter(t, -1e300);
        const G xl      = spl(tl, vl, al_);
        // continuity allowance: one ulp of t at the local speed
        w_left = std::max(w_left, std::max<L>(0, orc::err_rel1(elemL(l, xl), elemL(l, gs[size_t(i)])) - 4 * std::max<L>(vmax, orc::maxabs(toL(vl))) * (L(t) - L(tl))));
        if (K >= 3 && i + 1 < np) w_vjump = std::max(w_vjump, orc::maxabs(toL(vr) - toL(vl)) / vmax);
      }
    }
    rep.judge(T + ".through_points_from_right", st, w_right, 1e-9L, det);
    rep.judge(T + ".through_points_from_left", st, w_left, 1e-9L, det);
    if (K >= 3) rep.judge(T + ".velocity_continuous", st, w_vjump, 1e-6L, det);
    if constexpr (ZeroEndVel) {
      Tangent v0, v1, a0, a1;
      spl(0., v0, a0);
      spl(std::nextafter(spl.t_max(), -1e300), v1, a1);
      rep.judge(T + ".starts_at_rest", st, orc::maxabs(toL(v0)) / vmax, 1e-6L, det);
      rep.judge(T + ".ends_at_rest", st, orc::maxabs(toL(v1)) / vmax, 1e-6L, det);
    }
    // interior samples are finite
    bool fin = true;
    for (int k = 0; k < 10; ++k) {
      Tangent v, a;
      const G x = spl(r.uni() * spl.t_max(), v, a);
      fin       = fin && elemL(l, x).allFinite() && v.allFinite() && a.allFinite();
    }
    rep.require(T + ".finite", st, fin, det);
  });
}

// ------------------------------------------------------------------ C. Dubins
struct Word
{
  const char * name;
  int s1, s2, s3;  // +1 left, -1 right, 0 straight
  L t, p, q;
  bool ok;
};
static L mod2pi(L x)
{
  x = fmodl(x, 2 * PI_L);
  if (x < 0) x += 2 * PI_L;
  return x;
}
static Mat se2_exp(L vx, L w, L len)
{
  const LayoutP l = orc::L_SE2();
  Vec a(3);
  a << vx * len, 0, w * len;
  return orc::exp_ref(*l, a);
}
// end pose of a word on the unit-radius problem
static Mat word_end(const Word & w)
{
  auto seg = [](int s, L len) { return s == 0 ? se2_exp(1, 0, len) : se2_exp(1, L(s), len); };
  return seg(w.s1, w.t) * seg(w.s2, w.p) * seg(w.s3, w.q);
}
static std::vector<Word> dubins_words(L x, L y, L th)
{
  const L d = sqrtl(x * x + y * y), phi = atan2l(y, x);
  const L a = mod2pi(-phi), b = mod2pi(th - phi);
  const L sa = sinl(a), sb = sinl(b), ca = cosl(a), cb = cosl(b), cab = cosl(a - b);
  std::vector<Word> ws;
  {
    const L tmp = 2 + d * d - 2 * cab + 2 * d * (sa - sb);
    const L at  = atan2l(cb - ca, d + sa - sb);
    ws.push_back({"LSL", 1, 0, 1, mod2pi(-a + at), tmp >= 0 ? sqrtl(tmp) : 0, mod2pi(b - at), tmp >= 0});
  }
  {
    const L tmp = 2 + d * d - 2 * cab + 2 * d * (sb - sa);
    const L at  = atan2l(ca - cb, d - sa + sb);
    ws.push_back({"RSR", -1, 0, -1, mod2pi(a - at), tmp >= 0 ? sqrtl(tmp) : 0, mod2pi(-b + at), tmp >= 0});
  }
  {
    const L p2 = -2 + d * d + 2 * cab + 2 * d * (sa + sb);
    const L p  = p2 >= 0 ? sqrtl(p2) : 0;
    const L tmp = atan2l(-ca - cb, d + sa + sb) - atan2l(-2.0L, p);
    ws.push_back({"LSR", 1, 0, -1, mod2pi(-a + tmp), p, mod2pi(-mod2pi(b) + tmp), p2 >= 0});
  }
  {
    const L p2 = d * d - 2 + 2 * cab - 2 * d * (sa + sb);
    const L p  = p2 >= 0 ? sqrtl(p2) : 0;
    const L tmp = atan2l(ca + cb, d - sa - sb) - atan2l(2.0L, p);
    ws.push_back({"RSL", -1, 0, 1, mod2pi(a - tmp), p, mod2pi(b - tmp), p2 >= 0});
  }
  {
    const L tmp = (6 - d * d + 2 * cab + 2 * d * (sa - sb)) / 8;
    const bool ok = fabsl(tmp) <= 1;
    const L p = ok ? mod2pi(2 * PI_L - acosl(tmp)) : 0;
    const L t = mod2pi(a - atan2l(ca - cb, d - sa + sb) + p / 2);
    ws.push_back({"RLR", -1, 1, -1, t, p, mod2pi(a - b - t + p), ok});
  }
  {
    const L tmp = (6 - d * d + 2 * cab + 2 * d * (-sa + sb)) / 8;
    const bool ok = fabsl(tmp) <= 1;
    const L p = ok ? mod2pi(2 * PI_L - acosl(tmp)) : 0;
    const L t = mod2pi(-a - atan2l(ca - cb, d + sa - sb) + p / 2);
    ws.push_back({"LRL", 1, -1, 1, t, p, mod2pi(mod2pi(b) - a - t + p), ok});
  }
  // degenerate words: the target lies on the start's own left / right circle (the CSC formulas above then have an
  // undefined chord direction): a single arc
  ws.push_back({"L", 1, 0, 1, mod2pi(th), 0, 0, true});
  ws.push_back({"R", -1, 0, -1, mod2pi(-th), 0, 0, true});
  ws.push_back({"S", 0, 0, 0, d, 0, 0, true});
  // the formulas above are for a start heading along the chord direction phi: rotate into that frame
  // (a word is kept only if its forward-integrated end pose hits the target)
  return ws;
}

template<int K>
static void dubins(Report & rep, long n)
{
  const LayoutP l2    = orc::L_SE2();
  const std::string T = "dubins.K" + std::to_string(K);
  rep.run_stream(T, n, [&](Rng & r, long idx) {
    const double R = r.loguni(1e-2, 1e2);
    // targets over the plane incl. borders of the word families (d = 4R, 2R), coincident circles, same pose
    double x, y, th;
    const int kind = int(idx % 10);
    th             = r.range(-3.14159, 3.14159);
    double pert    = 0;  // kinds 8/9: relative distance from the pure-arc configuration
    if (kind == 0) {
      x = R * r.range(-8, 8);
      y = R * r.range(-8, 8);
    } else if (kind == 1) {
      x = R * r.range(-1.5, 1.5);
      y = R * r.range(-1.5, 1.5);
    } else if (kind == 2) {
      x = R * 100 * r.sym();
      y = R * 100 * r.sym();
    } else if (kind == 3 || kind == 8 || kind == 9) {
      // a pure left/right arc of angle phi in (0, 2 pi) (coincident circles; reflex arcs have a heading of the opposite sign);
      // kind 8: the same target moved off the circle by 1e-13 ... 1e-3 R (nearly coincident circles, general branch);
      // kind 9: heading perturbed instead
      const double sg = r.coin() ? 1 : -1, phi = r.coin(0.5) ? r.range(0.01, 3.14159) : r.range(3.14159, 6.28);
      th = std::remainder(sg * phi, 6.283185307179586);
      x  = R * std::sin(phi);
      y  = sg * R * (1 - std::cos(phi));
      if (kind == 8) {
        const double del = R * r.loguni(1e-13, 1e-3), ang = r.range(-3.14159, 3.14159);
        x += del * std::cos(ang);
        y += del * std::sin(ang);
        pert = del / R;
      } else if (kind == 9) {
        const double dth = (r.coin() ? 1 : -1) * r.loguni(1e-13, 1e-3);
        th   = std::remainder(th + dth, 6.283185307179586);
        pert = std::abs(dth);
      }
    } else if (kind == 4) {
      x  = R * 4 * std::cos(r.range(-3, 3));
      y  = R * 4 * std::sin(r.range(-3, 3));
      th = 0;
    } else if (kind == 5) {
      x  = r.coin() ? R * r.loguni(1e-3, 10) : 0;
      y  = 0;
      th = r.coin() ? 0 : th;
    } else if (kind == 6) {
      x = R * r.sym() * 3;
      y = R * r.sym() * 3;
      static const double sp[] = {0, 1.5707963267948966, -1.5707963267948966, 3.141592653589793};
      th = sp[r.below(4)];
    } else {
      x = R * r.range(-4, 4);
      y = R * r.range(-4, 4);
    }
    const smooth::SE2d target(smooth::SO2d(th), Eigen::Vector2d(x, y));
    const auto c = smooth::dubins_curve<K>(target, R);
    const std::string st = "kind" + std::to_string(kind) + ",R:" + decade(R);
    auto det = [&]() { return JObj().integer("K", K).num("R", R).num("x", x).num("y", y).num("th", th).num("length_lib", c.t_max()).done(); };
    const double in[4] = {R, x, y, th};
    rep.note_input(hash_bytes(in, sizeof in), true);
    const Mat Tm = l2->matrix(toL(target.coeffs()));
    // ends at the target (translations are of size R * 100 at most: relative to that scale)
    const L scale = std::max<L>(1, std::max(fabsl(L(x)), fabsl(L(y))));
    rep.judge(T + ".reaches_target", st, orc::maxabs(l2->matrix(toL(c.end().coeffs())) - Tm) / scale, 1e-9L, det);
    rep.judge(T + ".starts_at_identity", st, orc::maxabs(l2->matrix(toL(c.start().coeffs())) - orc::eye(3)), 0, det);
    rep.judge(T + ".value_at_tmax", st, orc::maxabs(l2->matrix(toL(c(c.t_max()).coeffs())) - Tm) / scale, 1e-9L, det);
    // unit speed and curvature bound at sampled times
    L w_speed = 0, w_curv = 0;
    for (int k = 0; k < 12; ++k) {
      Eigen::Vector3d v, a;
      c(r.uni() * c.t_max(), v, a);
      w_speed = std::max(w_speed, std::max(fabsl(L(v(0)) - 1), fabsl(L(v(1)))));
      w_curv  = std::max(w_curv, fabsl(L(v(2))) * L(R) - 1);
    }
    if (c.t_max() > 0) {
      rep.judge(T + ".unit_speed", st, w_speed, 1e-9L, det);
      rep.judge(T + ".curvature_bound", st, w_curv, 1e-9L, det);
    }
    // length is the minimum over the six words (oracle words are validated by forward integration)
    const L xs = L(x) / L(R), ys = L(y) / L(R);
    L best = INFINITY;
    int validated = 0;
    for (const Word & w : dubins_words(xs, ys, L(th))) {
      if (!w.ok) continue;
      Mat E = word_end(w);
      Mat Ts = Tm;
      Ts(0, 2) = xs;
      Ts(1, 2) = ys;
      if (orc::maxabs(E - Ts) < 1e-9L * std::max<L>(1, std::max(fabsl(xs), fabsl(ys)))) {
        ++validated;
        best = std::min(best, (w.t + w.p + w.q) * L(R));
      }
    }
    rep.count(validated ? "C14.dubins.oracle_words_validated" : "C14.dubins.no_oracle_word", validated ? validated : 1);
    // The Dubins distance is discontinuous across the pure-arc configurations (a target 1e-10 R off the arc, on the
    // wrong side, needs an extra full turn). Both the library's end pose and the oracle's word validation are exact only
    // to ~1e-9, so for targets closer than 1e-7 R to such a configuration (but not on it) both "phi" and "phi + 2 pi"
    // are answers within tolerance: the length is not judged there (counted).
    const bool near_discontinuity = pert > 0 && pert < 1e-7;
    if (near_discontinuity) rep.count("C14.dubins.length_not_judged_near_discontinuity");
    if (validated && !near_discontinuity) {
      const L len = c.t_max();
      rep.judge(T + ".length_not_longer_than_best_word", st, (len - best) / std::max<L>(best, L(R)), 1e-9L, det);
      rep.judge(T + ".length_not_shorter_than_best_word", st, (best - len) / std::max<L>(best, L(R)), 1e-9L, det);
    }
  });
}

// ------------------------------------------------------------------ D. fit_bspline, E. reparameterize
static void misc(Report & rep)
{
  using namespace smooth;
  const LayoutP l3 = TI<SO3d>::layout();
  rep.run_stream("fit_bspline", NQ(rep, 80, 2500), [&](Rng & r, long idx) {
    const int np = 4 + r.below(37);
    double base;
    const std::vector<double> ts = gen_stamps(r, np, 10, base);
    const double dt = base * r.loguni(0.5, 8);
    auto det = [&]() { return JObj().integer("n", np).num("dt", dt).raw("ts", hexv(Eigen::Map<const Eigen::VectorXd>(ts.data(), np))).done(); };
    rep.note_input(Report::hash_vec(Eigen::Map<const Eigen::VectorXd>(ts.data(), np), hash_bytes(&dt, sizeof dt)), true);
    const std::string st = std::string(idx % 2 ? "SO3" : "R2") + ",dt:" + decade(dt);
    auto covers = [&](const auto & b) {
      const bool fin = std::isfinite(b.t_min()) && std::isfinite(b.t_max());
      rep.require("fit_bspline.covers_start", st, fin && b.t_min() <= ts.front(), det);
      rep.require("fit_bspline.covers_end", st, fin && b.t_max() >= ts.back(), det);
      bool ok = true;
      for (int k = 0; k < 10; ++k) {
        const auto v = b(r.range(ts.front(), ts.back()));
        if constexpr (requires { v.coeffs(); }) ok = ok && v.coeffs().allFinite();
        else ok = ok && v.allFinite();
      }
      rep.require("fit_bspline.finite_on_span", st, ok, det);
    };
    if (idx % 2) {
      std::vector<SO3d> gs = {make_elem<SO3d>(gen_coeffs<double>(*l3, r, R_GENERIC, 0))};
      for (int i = 1; i < np; ++i) gs.push_back(gs.back() + Eigen::Vector3d(0.3 * r.sym(), 0.3 * r.sym(), 0.3 * r.sym()));
      covers(smooth::fit_bspline<3>(ts, gs, dt));
    } else {
      std::vector<Eigen::Vector2d> gs = {Eigen::Vector2d(r.sym(), r.sym())};
      for (int i = 1; i < np; ++i) gs.push_back(gs.back() + Eigen::Vector2d(0.3 * r.sym(), 0.3 * r.sym()));
      covers(smooth::fit_bspline<2>(ts, gs, dt));
    }
  });

  for (const bool straight : {false, true})
  rep.run_stream(straight ? "reparameterize.nearly_straight" : "reparameterize", straight ? NQ(rep, 40, 1000) : NQ(rep, 80, 2500), [&, straight](Rng & r, long) {
    // source curve: a cubic fit through random SE2 poses (twice continuously differentiable)
    const int np = 3 + r.below(8);
    std::vector<double> ts = {0};
    for (int i = 1; i < np; ++i) ts.push_back(ts.back() + r.loguni(0.1, 5));
    std::vector<SE2d> gs = {SE2d::Identity()};
    // regime: generic planar motion, or nearly straight motion (lateral / angular velocity components between 1e-7
    // and 1e-2 of the forward one: their velocity and acceleration bounds are very weak constraints of the LPs)
    const double lat = straight ? r.loguni(1e-7, 1e-2) : 1.0, ang = straight ? r.loguni(1e-7, 1e-2) : 1.0;
    for (int i = 1; i < np; ++i) gs.push_back(gs.back() + Eigen::Vector3d(straight ? 0.2 + r.uni() : r.sym(), 0.3 * lat * r.sym(), 0.8 * ang * r.sym()));
    const auto c = smooth::fit_spline_cubic(ts, gs);
    const double vs = r.loguni(0.1, 10), as = r.loguni(0.1, 10);
    Eigen::Vector3d vmax(vs * r.loguni(1, 10), vs * r.loguni(1, 10), vs * r.loguni(1, 10)), amax(as * r.loguni(1, 10), as * r.loguni(1, 10), as * r.loguni(1, 10));
    const Eigen::Vector3d vmin = -vmax.cwiseProduct(Eigen::Vector3d(r.loguni(0.3, 3), r.loguni(0.3, 3), r.loguni(0.3, 3)));
    const Eigen::Vector3d amin = -amax.cwiseProduct(Eigen::Vector3d(r.loguni(0.3, 3), r.loguni(0.3, 3), r.loguni(0.3, 3)));
    const double start_vel = r.coin(0.2) ? 0.0 : r.loguni(1e-2, 10);
    const double end_vel   = r.coin(0.5) ? std::numeric_limits<double>::infinity() : r.loguni(1e-2, 10);
    const std::size_t N    = 20 + size_t(r.below(150));
    auto inputs = [&]() {
      Eigen::VectorXd gall(4 * np);
      for (int i = 0; i < np; ++i) gall.segment<4>(4 * i) = gs[size_t(i)].coeffs();
      return JObj().raw("ts", hexv(Eigen::Map<const Eigen::VectorXd>(ts.data(), np))).raw("gs", hexv(gall)).raw("vmin", hexv(vmin)).raw("vmax", hexv(vmax))
        .raw("amin", hexv(amin)).raw("amax", hexv(amax)).num("start_vel", start_vel).num("end_vel", end_vel).integer("N", (long long)N).done();
    };
    if (rep.args.only_case >= 0) fprintf(stderr, "INPUTS %s\n", inputs().c_str());
    const auto s = smooth::reparameterize_spline(c, vmin, vmax, amin, amax, start_vel, end_vel, N);
    auto det = [&]() {
      return JObj().raw("inputs", inputs()).num("T", s.t_max()).done();
    };
    rep.note_input(Report::hash_vec(vmax, Report::hash_vec(amax, hash_bytes(&start_vel, sizeof start_vel))), true);
    const std::string st = std::string(start_vel == 0 ? "start_vel=0" : "start_vel>0") + ",end_vel:" + (std::isinf(end_vel) ? std::string("inf") : decade(end_vel)) + (straight ? ",nearly_straight" : "");
    const double T = s.t_max();
    rep.require("reparameterize.finite_duration", st, std::isfinite(T) && T > 0, det);
    if (!(std::isfinite(T) && T > 0)) return;
    rep.judge("reparameterize.starts_at_t_min", st, fabsl(L(s(0.)) - L(c.t_min())), 1e-9L, det);
    rep.judge("reparameterize.ends_at_t_max", st, fabsl(L(s(T)) - L(c.t_max())) / std::max<L>(1, c.t_max()), 1e-9L, det);
    // non-decreasing and onto
    L worst_dec = 0, worst_range = 0;
    double prev = s(0.);
    for (int k = 1; k <= 400; ++k) {
      const double t = T * k / 400.0;
      Eigen::Matrix<double, 1, 1> ds;
      const double v = s(t, ds);
      worst_dec      = std::max(worst_dec, L(prev) - L(v));
      worst_range    = std::max({worst_range, L(c.t_min()) - L(v), L(v) - L(c.t_max())});
      prev           = v;
    }
    rep.judge("reparameterize.non_decreasing", st, worst_dec, 1e-9L * std::max<L>(1, c.t_max()), det);
    rep.judge("reparameterize.stays_in_range", st, worst_range, 1e-9L * std::max<L>(1, c.t_max()), det);
    Eigen::Matrix<double, 1, 1> ds0;
    s(0., ds0);
    rep.judge("reparameterize.start_speed_bounded", st, L(ds0(0)) - L(start_vel) * (1 + 1e-9L), 1e-12L, det);
  });
}

int main(int argc, char ** argv)
{
  Args args = parse_args(argc, argv);
  Report rep(args);
  using namespace smooth;
  using namespace smooth::spline_specs;
#if TS == 0
  fit1d<PiecewiseLinear<double>>(rep, "PiecewiseLinear", 1e3, NQ(rep, 300, 10000));
  fit1d<FixedDerCubic<double, 1, 1>>(rep, "FixedDerCubic11", 1e3, NQ(rep, 300, 10000));
  fit1d<FixedDerCubic<double, 2, 2>>(rep, "FixedDerCubic22", 1e3, NQ(rep, 300, 10000));
  fit1d<FixedDerCubic<double, 1, 2>>(rep, "FixedDerCubic12", 1e3, NQ(rep, 300, 10000));
  fit1d<MinDerivative<double, 6, 3, 3>>(rep, "MinDerivative633", 10, NQ(rep, 300, 10000));
  fit1d<MinDerivative<double, 5, 3, 3>>(rep, "MinDerivative533", 10, NQ(rep, 300, 10000));
  dubins<1>(rep, NQ(rep, 600, 20000));
  dubins<2>(rep, NQ(rep, 600, 20000));
  dubins<3>(rep, NQ(rep, 1500, 60000));
  dubins<4>(rep, NQ(rep, 600, 20000));
  misc(rep);
#else
  fit_group<SE3d, FixedDerCubic<SE3d, 1, 1>, true>(rep, "FixedDerCubic11", NQ(rep, 120, 4000));
  fit_group<SE3d, FixedDerCubic<SE3d, 2, 2>, false>(rep, "FixedDerCubic22", NQ(rep, 120, 4000));
  fit_group<SO3d, PiecewiseLinear<SO3d>, false>(rep, "PiecewiseLinear", NQ(rep, 120, 4000));
  fit_group<SE2d, FixedDerCubic<SE2d, 1, 2>, false>(rep, "FixedDerCubic12", NQ(rep, 120, 4000));
  fit_group<SE2d, MinDerivative<SE2d, 6, 3, 3>, true>(rep, "MinDerivative633", NQ(rep, 120, 4000));
  fit_group<Eigen::Vector3d, MinDerivative<Eigen::Vector3d, 5, 3, 3>, true>(rep, "MinDerivative533", NQ(rep, 120, 4000));
  fit_group<Eigen::Matrix<double, 1, 1>, FixedDerCubic<Eigen::Matrix<double, 1, 1>, 1, 1>, true>(rep, "FixedDerCubic11", NQ(rep, 120, 4000));
#endif
  rep.write();
  return 0;
}
