// Oracle pieces shared by the curve monitors (C11-C14): cumulative splines by matrix jets,
// own Bernstein / Cox-de Boor bases, knot bookkeeping.
#pragma once

#include "harness/gen.hpp"

namespace vh {

struct CurvePoint
{
  Mat G;
  Vec vel, acc, jerk;
};

// Taylor coefficients (value, d/1!, d2/2!, d3/3!) at u of the polynomial with monomial coefficients c[0..K]
inline std::vector<L> poly_taylor(const Vec & c, L u)
{
  const int K = int(c.size()) - 1;
  std::vector<L> s(4, 0);
  for (int d = 0; d <= 3; ++d) {
    L acc = 0;
    for (int r = d; r <= K; ++r) {
      L coef = c(r);
      for (int q = 0; q < d; ++q) coef *= L(r - q);
      acc += coef * powl(u, r - d);
    }
    L fact = 1;
    for (int q = 2; q <= d; ++q) fact *= q;
    s[size_t(d)] = acc / fact;
  }
  return s;
}

// prod_{j=1..K} exp(Bcum_j(u) v_j) and its body-frame derivatives w.r.t. u.
// Bcum: (K+1)x(K+1) monomial coefficient matrix, column j = cumulative basis function j
inline CurvePoint cspline_oracle(const Layout & l, const Mat & Bcum, L u, const std::vector<Vec> & vs)
{
  const int K = int(vs.size());
  orc::Jet J  = orc::Jet::constant(orc::eye(l.dim), 3);
  for (int j = 1; j <= K; ++j) J = orc::jet_mul(J, orc::jet_exp_scalar(l.hat(vs[size_t(j - 1)]), poly_taylor(Bcum.col(j), u)));
  CurvePoint p;
  p.G = J.c[0];
  orc::jet_body_derivs(l, J, p.vel, p.acc, p.jerk);
  return p;
}

// same curve anchored at g0 with v_i = log(g_{i-1}^-1 g_i)
inline CurvePoint cspline_oracle_gs(const Layout & l, const Mat & Bcum, L u, const std::vector<Mat> & gs)
{
  std::vector<Vec> vs;
  for (size_t i = 1; i < gs.size(); ++i) vs.push_back(orc::log_ref(l, orc::inv(gs[i - 1]) * gs[i]));
  CurvePoint p = cspline_oracle(l, Bcum, u, vs);
  p.G          = gs[0] * p.G;
  return p;
}

inline L binomL(int n, int k)
{
  L r = 1;
  for (int i = 1; i <= k; ++i) r = r * (n - k + i) / i;
  return r;
}

// monomial coefficient matrix (row = power, column = basis function) of the Bernstein basis of degree K
inline Mat bernstein_matrix(int K)
{
  Mat B = Mat::Zero(K + 1, K + 1);
  // B_i(u) = C(K,i) u^i (1-u)^(K-i) = C(K,i) sum_m C(K-i,m) (-1)^m u^(i+m)
  for (int i = 0; i <= K; ++i)
    for (int m = 0; m <= K - i; ++m) B(i + m, i) += binomL(K, i) * binomL(K - i, m) * ((m % 2) ? -1 : 1);
  return B;
}
// uniform B-spline segment basis of degree K from the Cox-de Boor recursion carried out on polynomials
inline Mat bspline_matrix(int K)
{
  // N_{i,k}(t) on the interval [K, K+1), t = K + u; represent each N_{i,k} restricted to that interval as a polynomial in u
  // start: N_{i,0} = 1 for i == K else 0
  std::vector<Vec> N(size_t(2 * K + 2), Vec::Zero(K + 1));
  N[size_t(K)](0) = 1;
  for (int k = 1; k <= K; ++k) {
    std::vector<Vec> M(size_t(2 * K + 2), Vec::Zero(K + 1));
    for (int i = 0; i + 1 < int(N.size()); ++i) {
      // N_{i,k} = (t - i)/k N_{i,k-1} + (i + k + 1 - t)/k N_{i+1,k-1},  t = K + u
      Vec a = Vec::Zero(K + 1), b = Vec::Zero(K + 1);
      for (int r = 0; r <= K; ++r) {
        a(r) += (K - i) * N[size_t(i)](r) / k;
        if (r + 1 <= K) a(r + 1) += N[size_t(i)](r) / k;
        b(r) += (i + k + 1 - K) * N[size_t(i + 1)](r) / k;
        if (r + 1 <= K) b(r + 1) -= N[size_t(i + 1)](r) / k;
      }
      M[size_t(i)] = a + b;
    }
    N = M;
  }
  Mat B(K + 1, K + 1);
  for (int i = 0; i <= K; ++i) B.col(i) = N[size_t(i)];
  return B;
}
inline Mat cumulative(const Mat & B)
{
  Mat C = B;
  for (int j = int(B.cols()) - 2; j >= 0; --j) C.col(j) += C.col(j + 1);
  return C;
}

}  // namespace vh
