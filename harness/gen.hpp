// Stratified, hostile input generators driven by the oracle's runtime layouts, and the
// mapping from smooth types to layouts.
#pragma once

#include <smooth/bundle.hpp>
#include <smooth/c1.hpp>
#include <smooth/galilei.hpp>
#include <smooth/lie_groups.hpp>
#include <smooth/se2.hpp>
#include <smooth/se3.hpp>
#include <smooth/se_k_3.hpp>
#include <smooth/so2.hpp>
#include <smooth/so3.hpp>

#include "harness/common.hpp"
#include "oracle/oracle.hpp"

namespace vh {

using orc::L;
using orc::Layout;
using orc::LayoutP;
using orc::Mat;
using orc::Vec;

constexpr L PI_L = 3.14159265358979323846264338327950288L;

// ------------------------------------------------------------------ type info
template<typename G>
struct TI;

template<typename S>
inline const char * sfx()
{
  return std::is_same_v<S, float> ? "f" : "d";
}

#define VH_TI(TYPE, LAY, NAME, HESS)                                  \
  template<typename S>                                                \
  struct TI<smooth::TYPE<S>>                                          \
  {                                                                   \
    static LayoutP layout()                                           \
    {                                                                 \
      static LayoutP l = LAY;                                         \
      return l;                                                       \
    }                                                                 \
    static std::string name() { return std::string(NAME) + sfx<S>(); } \
    static constexpr bool has_hessian = HESS;                         \
  }
VH_TI(SO2, orc::L_SO2(), "SO2", true);
VH_TI(SO3, orc::L_SO3(), "SO3", true);
VH_TI(SE2, orc::L_SE2(), "SE2", true);
VH_TI(SE3, orc::L_SE3(), "SE3", true);
VH_TI(C1, orc::L_C1(), "C1", true);
VH_TI(Galilei, orc::L_Galilei(), "Galilei", false);
#undef VH_TI

template<typename S, int K>
struct TI<smooth::SE_K_3<S, K>>
{
  static LayoutP layout()
  {
    static LayoutP l = orc::L_SEK3(K);
    return l;
  }
  static std::string name() { return "SE_" + std::to_string(K) + "_3" + sfx<S>(); }
  static constexpr bool has_hessian = false;
};
template<typename S, int N>
struct TI<Eigen::Matrix<S, N, 1>>
{
  static LayoutP layout()
  {
    static LayoutP l = orc::L_Tn(N);
    return l;
  }
  static std::string name() { return "R" + std::to_string(N) + sfx<S>(); }
  static constexpr bool has_hessian = true;
};
template<typename... Gs>
struct TI<smooth::Bundle<Gs...>>
{
  static LayoutP layout()
  {
    static LayoutP l = orc::L_Bundle({TI<Gs>::layout()...});
    return l;
  }
  static std::string name()
  {
    std::string s = "B<";
    bool first    = true;
    ((s += (first ? "" : ",") + TI<Gs>::name(), first = false), ...);
    return s + ">";
  }
  static constexpr bool has_hessian = (TI<Gs>::has_hessian && ...);
};

// ------------------------------------------------------------------ conversions
template<typename D>
inline Mat toL(const Eigen::MatrixBase<D> & m)
{
  return m.template cast<L>();
}
template<typename S, typename D>
inline auto fromL(const Eigen::MatrixBase<D> & m)
{
  return m.template cast<S>().eval();
}

// ------------------------------------------------------------------ strata
enum RotMode { R_ZERO, R_TINY, R_BAND, R_GENERIC, R_NEARPI, R_BEYOND, R_EXACTPI, R_INV_NEARPI, R_MODERATE };
enum TrMode { T_ZERO, T_SMALL, T_LARGE, T_MIXED };

inline L rot_norm_for(Rng & r, int mode)
{
  switch (mode) {
    case R_ZERO: return 0;
    case R_TINY: return r.loguni(1e-12, 1e-6);
    case R_BAND: return r.loguni(1e-6, 1e-1);
    case R_GENERIC: return r.range(0.1, double(PI_L) - 0.1);
    case R_NEARPI: return PI_L - L(r.loguni(1e-12, 1e-3));
    case R_BEYOND: return r.range(double(PI_L), 50.0);
    case R_EXACTPI: return PI_L;
    case R_INV_NEARPI: return PI_L - L(r.loguni(1e-3, 0.1));
    case R_MODERATE: return r.range(0.0, 1.5);
  }
  return 0;
}

inline std::string rot_label(L n)
{
  if (n == 0) return "0";
  if (n < 0.1L) return decade(n);
  if (n < PI_L - 0.1L) return "generic";
  if (n < PI_L) return "pi-" + decade(PI_L - n);
  if (n <= PI_L * (1 + 1e-15L)) return "pi";
  return "beyond";
}
inline std::string tr_label(L m)
{
  if (m == 0) return "0";
  if (m < 1) return "<1";
  if (m < 31.7L) return "<30";
  return "<=1e3";
}

inline Vec rand_axis(Rng & r, int len)
{
  Vec ax(len);
  if (len == 1) {
    ax(0) = r.coin() ? 1 : -1;
    return ax;
  }
  const int kind = r.below(10);
  if (kind < 6) {
    for (int i = 0; i < len; ++i) ax(i) = r.gauss();
  } else if (kind < 8) {
    ax.setZero();
    ax(r.below(len)) = r.coin() ? 1 : -1;
  } else if (kind < 9) {
    for (int i = 0; i < len; ++i) ax(i) = r.gauss();
    ax(r.below(len)) = 0;
  } else {
    for (int i = 0; i < len; ++i) ax(i) = r.gauss();
    ax(r.below(len)) = -0.0L;
  }
  L n = ax.norm();
  if (n == 0) {
    ax(0) = 1;
    n     = 1;
  }
  return ax / n;
}

inline L rand_tr(Rng & r, int mode)
{
  switch (mode) {
    case T_ZERO: return 0;
    case T_SMALL: return (r.coin() ? 1 : -1) * r.loguni(1e-3, 1);
    case T_LARGE: return (r.coin() ? 1 : -1) * r.loguni(1, 1e3);
    default: return r.coin(0.15) ? 0.0 : (r.coin() ? 1 : -1) * r.loguni(1e-3, 1e3);
  }
}

struct TInfo
{
  L rotmax = 0;   // largest rotation-block norm (of the values after rounding to S)
  L trmax  = 0;   // largest |translation-like coordinate|
  std::string label() const { return "rot:" + rot_label(rotmax) + ",tr:" + tr_label(trmax); }
};

// classify a tangent (values already rounded to the scalar type) against a layout
inline TInfo classify_tangent(const Layout & l, const Vec & a)
{
  TInfo ti;
  std::vector<bool> isrot(size_t(l.dof), false);
  for (auto [s, n] : l.rotblocks) {
    L nn = a.segment(s, n).norm();
    if (nn > ti.rotmax) ti.rotmax = nn;
    for (int i = 0; i < n; ++i) isrot[size_t(s + i)] = true;
  }
  for (int i : l.logscale) isrot[size_t(i)] = true;
  for (int i = 0; i < l.dof; ++i)
    if (!isrot[size_t(i)] && fabsl(a(i)) > ti.trmax) ti.trmax = fabsl(a(i));
  return ti;
}

// generate a tangent vector; rounded to scalar S (so that classification sees actual values)
template<typename S>
inline Vec gen_tangent(const Layout & l, Rng & r, int rotmode, int trmode)
{
  Vec a(l.dof);
  for (int i = 0; i < l.dof; ++i) a(i) = rand_tr(r, trmode);
  for (int i : l.logscale) a(i) = r.coin(0.1) ? 0.0 : r.range(-3, 3);
  bool first = true;
  for (auto [s, n] : l.rotblocks) {
    // in products, not every block gets the hostile stratum
    int m = rotmode;
    if (!first && r.coin(0.5)) m = r.coin() ? R_GENERIC : R_BAND;
    first                = false;
    a.segment(s, n) = rand_axis(r, n) * rot_norm_for(r, m);
  }
  Vec out(l.dof);
  for (int i = 0; i < l.dof; ++i) out(i) = L(S(a(i)));
  return out;
}

// generate element coefficients directly (constraint satisfied to rounding in S, canonical sign)
template<typename S>
inline Vec gen_coeffs(const Layout & l, Rng & r, int angmode, int trmode, L * angle_out = nullptr)
{
  Vec c(l.rep);
  for (int i = 0; i < l.rep; ++i) c(i) = rand_tr(r, trmode);
  L angmax = 0;
  for (int s : l.quat) {
    const L th    = rot_norm_for(r, angmode);
    const Vec ax  = rand_axis(r, 3);
    c.segment(s, 3) = ax * sinl(th / 2);
    c(s + 3)        = cosl(th / 2);
    if (angmode == R_EXACTPI && r.coin()) {
      c(s + 3) = r.coin() ? 0.0L : L(r.loguni(1e-17, 1e-6));
      c.segment(s, 4) /= c.segment(s, 4).norm();  // stay a unit quaternion to rounding
    }
    if (c(s + 3) < 0) c.segment(s, 4) = -c.segment(s, 4);
    if (th > angmax) angmax = th;
  }
  for (int s : l.ucomplex) {
    L th = rot_norm_for(r, angmode) * (r.coin() ? 1 : -1);
    c(s)     = sinl(th);
    c(s + 1) = cosl(th);
    if (fabsl(th) > angmax) angmax = fabsl(th);
  }
  for (int s : l.scomplex) {
    L th = rot_norm_for(r, angmode) * (r.coin() ? 1 : -1);
    L k  = expl(L(r.range(-3, 3)));
    c(s)     = k * sinl(th);
    c(s + 1) = k * cosl(th);
    if (fabsl(th) > angmax) angmax = fabsl(th);
  }
  Vec out(l.rep);
  for (int i = 0; i < l.rep; ++i) out(i) = L(S(c(i)));
  if (angle_out) *angle_out = angmax;
  return out;
}

// rotation angle(s) of an element from its coefficients (largest over blocks), in long double
inline L element_angle(const Layout & l, const Vec & c)
{
  L m = 0;
  for (int s : l.quat) {
    const L th = 2 * atan2l(c.segment(s, 3).norm(), fabsl(c(s + 3)));
    if (th > m) m = th;
  }
  for (int s : l.ucomplex) m = std::max(m, fabsl(atan2l(c(s), c(s + 1))));
  for (int s : l.scomplex) m = std::max(m, fabsl(atan2l(c(s), c(s + 1))));
  return m;
}
inline L coeff_trmax(const Layout & l, const Vec & c)
{
  std::vector<bool> sp(size_t(l.rep), false);
  for (int s : l.quat)
    for (int i = 0; i < 4; ++i) sp[size_t(s + i)] = true;
  for (int s : l.ucomplex)
    for (int i = 0; i < 2; ++i) sp[size_t(s + i)] = true;
  for (int s : l.scomplex)
    for (int i = 0; i < 2; ++i) sp[size_t(s + i)] = true;
  L m = 0;
  for (int i = 0; i < l.rep; ++i)
    if (!sp[size_t(i)]) m = std::max(m, fabsl(c(i)));
  return m;
}

template<typename G>
inline G make_elem(const Vec & c)
{
  using S = typename G::Scalar;
  G g;
  g.coeffs() = c.template cast<S>();
  return g;
}

template<typename V>
inline std::string hexv(const V & v)
{
  return jhexvec(v);
}

}  // namespace vh
