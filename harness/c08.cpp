// Monitor C08: diff::dr returns the true tangent-space derivatives (Numerical), the callable's own
// derivatives verbatim (Analytic / Default), and leaves its arguments unchanged.
// Oracle: the same function re-expressed on the documented matrix groups in long double, differentiated by
// extended-precision 4th-order central differences with right perturbations M -> M expm(hat(h e_k)).
#include "harness/gen.hpp"

#include <smooth/diff.hpp>
#include <smooth/manifolds.hpp>

using namespace vh;
using DT = smooth::diff::Type;

static long NQ(const Report & rep, long quick, long thorough) { return rep.args.tier ? thorough : quick; }

// ------------------------------------------------------------------ oracle side
struct Slot
{
  LayoutP l;
  Mat M;
};
using OFun = std::function<Mat(const std::vector<Mat> &)>;

static std::vector<Mat> mats(const std::vector<Slot> & s)
{
  std::vector<Mat> m;
  for (auto & x : s) m.push_back(x.M);
  return m;
}
static int total_dof(const std::vector<Slot> & s)
{
  int n = 0;
  for (auto & x : s) n += x.l->dof;
  return n;
}
// perturb global tangent coordinate k by h (right perturbation)
static std::vector<Slot> perturbed(std::vector<Slot> s, int k, L h)
{
  for (auto & x : s) {
    if (k < x.l->dof) {
      x.M = x.M * orc::expm(x.l->hat(orc::unit(x.l->dof, k) * h));
      return s;
    }
    k -= x.l->dof;
  }
  return s;
}
static Vec odiff(const Layout & lo, const Mat & F0, const Mat & F1) { return orc::log_ref(lo, orc::inv(F0) * F1); }

static Mat J_ref(const std::vector<Slot> & s, const OFun & f, const Layout & lo, L h = 1e-3L)
{
  const int nx = total_dof(s);
  const Mat F0 = f(mats(s));
  Mat J(lo.dof, nx);
  for (int k = 0; k < nx; ++k) {
    auto d = [&](L hh) { return odiff(lo, F0, f(mats(perturbed(s, k, hh)))); };
    J.col(k) = (-d(2 * h) + 8 * d(h) - 8 * d(-h) + d(-2 * h)) / (12 * h);
  }
  return J;
}
// H(k0, j * nx + k1) = d/dh J(j, k0)(x (+) h e_k1)
static Mat H_ref(const std::vector<Slot> & s, const OFun & f, const Layout & lo)
{
  const int nx = total_dof(s), ny = lo.dof;
  const L h    = 2e-3L;
  Mat H(nx, ny * nx);
  for (int k1 = 0; k1 < nx; ++k1) {
    auto Jat     = [&](L hh) { return J_ref(perturbed(s, k1, hh), f, lo); };
    const Mat dJ = (-Jat(2 * h) + 8 * Jat(h) - 8 * Jat(-h) + Jat(-2 * h)) / (12 * h);
    for (int j = 0; j < ny; ++j)
      for (int k0 = 0; k0 < nx; ++k0) H(k0, j * nx + k1) = dJ(j, k0);
  }
  return H;
}

// ------------------------------------------------------------------ library side helpers
template<typename T>
static void flat_one(const T & t, std::vector<double> & out)
{
  if constexpr (std::is_floating_point_v<T>) {
    out.push_back(t);
  } else if constexpr (requires { t.coeffs(); }) {
    for (int i = 0; i < t.coeffs().size(); ++i) out.push_back(t.coeffs()(i));
  } else if constexpr (requires { t.begin()->coeffs(); }) {
    for (auto & e : t) flat_one(e, out);
  } else {
    for (int i = 0; i < t.size(); ++i) out.push_back(t(i));
  }
}
template<typename... X>
static std::vector<double> flat(const X &... x)
{
  std::vector<double> out;
  (flat_one(x, out), ...);
  return out;
}

template<typename R>
static Mat result_matrix(const Layout & lo, const R & r)
{
  if constexpr (std::is_floating_point_v<R>) {
    Vec c(1);
    c << r;
    return lo.matrix(c);
  } else if constexpr (requires { r.coeffs(); }) {
    return lo.matrix(toL(r.coeffs()));
  } else {
    return lo.matrix(toL(r));
  }
}

struct CaseCtx
{
  Report & rep;
  std::string fam, st;
  std::function<std::string()> det;
};

static L relerr(const Mat & got, const Mat & ref)
{
  if (got.rows() != ref.rows() || got.cols() != ref.cols()) return INFINITY;
  const L m = orc::maxabs(ref), d = orc::maxabs(got - ref);
  if (!(d == d)) return INFINITY;
  return d / std::max<L>(m, 1.0L);  // the statement is about O(1) derivatives: smaller references are judged absolutely
}

// full monitored evaluation of one case; Idx... describes argument subsets to test
template<bool WithK2, typename F, typename... X>
static void check_case(CaseCtx & c, F && f, const OFun & fo, const LayoutP & lout, const std::vector<Slot> & slots, X &... x)
{
  Report & rep       = c.rep;
  const Layout & lo  = *lout;
  const auto before  = flat(x...);
  const Mat F0       = fo(mats(slots));
  const Mat Jx       = J_ref(slots, fo, lo);

  // K = 0: just the value
  {
    const auto t0 = smooth::diff::dr<0, DT::Numerical>(f, smooth::wrt(x...));
    static_assert(std::tuple_size_v<std::decay_t<decltype(t0)>> == 1, "K=0 returns just the value");
    rep.judge(c.fam + ".K0.value", c.st, orc::err_rel1(result_matrix(lo, std::get<0>(t0)), F0), 1e-9L, c.det);
  }
  // K = 1 numerical
  {
    const auto [val, J] = smooth::diff::dr<1, DT::Numerical>(f, smooth::wrt(x...));
    rep.judge(c.fam + ".K1.value", c.st, orc::err_rel1(result_matrix(lo, val), F0), 1e-9L, c.det);
    rep.judge(c.fam + ".K1.jacobian", c.st, relerr(toL(J), Jx), 1e-4L, c.det);
    const auto after = flat(x...);
    L worst = 0, cmax = 0;
    for (size_t i = 0; i < before.size(); ++i) {
      worst = std::max(worst, fabsl(L(before[i]) - L(after[i])));
      cmax  = std::max(cmax, fabsl(L(before[i])));
    }
    rep.judge(c.fam + ".K1.args_restored", c.st, worst / std::max<L>(cmax, 1e-300L), 1e-15L, c.det);
    // default mode without callable derivatives = numerical
    const auto [val2, J2] = smooth::diff::dr<1>(f, smooth::wrt(x...));
    rep.judge(c.fam + ".K1.default_is_numerical", c.st, relerr(toL(J2), Jx), 1e-4L, c.det);
    (void)val2;
  }
  if constexpr (WithK2) {
    const auto before2      = flat(x...);
    const auto [val, J, H]  = smooth::diff::dr<2, DT::Numerical>(f, smooth::wrt(x...));
    const Mat Hx            = H_ref(slots, fo, lo);
    rep.judge(c.fam + ".K2.value", c.st, orc::err_rel1(result_matrix(lo, val), F0), 1e-9L, c.det);
    rep.judge(c.fam + ".K2.jacobian", c.st, relerr(toL(J), Jx), 1e-3L, c.det);  // K=2 uses the coarser step eps^(1/4): evidence-level bound
    rep.judge(c.fam + ".K2.hessian", c.st, relerr(toL(H), Hx), 5e-2L, c.det);
    const auto after = flat(x...);
    L worst = 0, cmax = 0;
    for (size_t i = 0; i < before2.size(); ++i) {
      worst = std::max(worst, fabsl(L(before2[i]) - L(after[i])));
      cmax  = std::max(cmax, fabsl(L(before2[i])));
    }
    rep.judge(c.fam + ".K2.args_restored", c.st, worst / std::max<L>(cmax, 1e-300L), 1e-15L, c.det);
  }
}

// subset check for two arguments: columns of subsets equal the corresponding columns of the exact derivative
template<typename F, typename X0, typename X1>
static void check_subsets2(CaseCtx & c, F && f, const OFun & fo, const LayoutP & lout, const std::vector<Slot> & slots, int n0, int n1, X0 & x0, X1 & x1)
{
  Report & rep = c.rep;
  const Mat Jx = J_ref(slots, fo, *lout);
  const auto [v0, J0]   = smooth::diff::dr<1, DT::Numerical>(f, smooth::wrt(x0, x1), std::index_sequence<0>{});
  const auto [v1, J1]   = smooth::diff::dr<1, DT::Numerical>(f, smooth::wrt(x0, x1), std::index_sequence<1>{});
  const auto [v01, J01] = smooth::diff::dr<1, DT::Numerical>(f, smooth::wrt(x0, x1), std::index_sequence<0, 1>{});
  const auto [v10, J10] = smooth::diff::dr<1, DT::Numerical>(f, smooth::wrt(x0, x1), std::index_sequence<1, 0>{});
  const auto [vf, Jf]   = smooth::diff::dr<1, DT::Numerical>(f, smooth::wrt(x0, x1));
  rep.judge(c.fam + ".subset{0}", c.st, relerr(toL(J0), Jx.leftCols(n0)), 1e-4L, c.det);
  rep.judge(c.fam + ".subset{1}", c.st, relerr(toL(J1), Jx.rightCols(n1)), 1e-4L, c.det);
  rep.judge(c.fam + ".subset{0,1}", c.st, relerr(toL(J01), Jx), 1e-4L, c.det);
  Mat Jsw(Jx.rows(), n0 + n1);
  Jsw << Jx.rightCols(n1), Jx.leftCols(n0);
  rep.judge(c.fam + ".subset{1,0}", c.st, relerr(toL(J10), Jsw), 1e-4L, c.det);
  // against the library's own full derivative (two evaluation paths, both numerical)
  rep.judge(c.fam + ".subset{0}_vs_full", c.st, relerr(toL(J0), toL(Jf).leftCols(n0)), 2e-4L, c.det);
  rep.judge(c.fam + ".subset{1}_vs_full", c.st, relerr(toL(J1), toL(Jf).rightCols(n1)), 2e-4L, c.det);
  (void)v0; (void)v1; (void)v01; (void)v10; (void)vf;
}

template<typename F, typename X0, typename X1, typename X2>
static void check_subsets3(CaseCtx & c, F && f, const OFun & fo, const LayoutP & lout, const std::vector<Slot> & slots, const std::array<int, 3> & n, X0 & x0, X1 & x1, X2 & x2)
{
  Report & rep = c.rep;
  const Mat Jx = J_ref(slots, fo, *lout);
  const int o1 = n[0], o2 = n[0] + n[1];
  auto cols = [&](std::initializer_list<int> idx) {
    int tot = 0;
    for (int i : idx) tot += n[size_t(i)];
    Mat R(Jx.rows(), tot);
    int at = 0;
    for (int i : idx) {
      const int o = i == 0 ? 0 : (i == 1 ? o1 : o2);
      R.middleCols(at, n[size_t(i)]) = Jx.middleCols(o, n[size_t(i)]);
      at += n[size_t(i)];
    }
    return R;
  };
  auto w = [&]() { return smooth::wrt(x0, x1, x2); };
  rep.judge(c.fam + ".subset{0}", c.st, relerr(toL(std::get<1>(smooth::diff::dr<1, DT::Numerical>(f, w(), std::index_sequence<0>{}))), cols({0})), 1e-4L, c.det);
  rep.judge(c.fam + ".subset{1}", c.st, relerr(toL(std::get<1>(smooth::diff::dr<1, DT::Numerical>(f, w(), std::index_sequence<1>{}))), cols({1})), 1e-4L, c.det);
  rep.judge(c.fam + ".subset{2}", c.st, relerr(toL(std::get<1>(smooth::diff::dr<1, DT::Numerical>(f, w(), std::index_sequence<2>{}))), cols({2})), 1e-4L, c.det);
  rep.judge(c.fam + ".subset{0,2}", c.st, relerr(toL(std::get<1>(smooth::diff::dr<1, DT::Numerical>(f, w(), std::index_sequence<0, 2>{}))), cols({0, 2})), 1e-4L, c.det);
  rep.judge(c.fam + ".subset{1,2}", c.st, relerr(toL(std::get<1>(smooth::diff::dr<1, DT::Numerical>(f, w(), std::index_sequence<1, 2>{}))), cols({1, 2})), 1e-4L, c.det);
  rep.judge(c.fam + ".subset{2,0}", c.st, relerr(toL(std::get<1>(smooth::diff::dr<1, DT::Numerical>(f, w(), std::index_sequence<2, 0>{}))), cols({2, 0})), 1e-4L, c.det);
  rep.judge(c.fam + ".subset{0,1,2}", c.st, relerr(toL(std::get<1>(smooth::diff::dr<1, DT::Numerical>(f, w(), std::index_sequence<0, 1, 2>{}))), cols({0, 1, 2})), 1e-4L, c.det);
}

// moderate elements (rotation <= ~1.2 so that logs of products stay well inside the injectivity radius)
template<typename G>
static G mod_elem(const Layout & l, Rng & r, Vec & c)
{
  Vec a(l.dof);
  for (int i = 0; i < l.dof; ++i) a(i) = r.coin(0.15) ? 0.0 : r.sym();
  for (auto [s, n] : l.rotblocks) {
    L nn = a.segment(s, n).norm();
    if (nn > 1.2L) a.segment(s, n) *= 1.2L / nn;
  }
  const G g = G::exp(a.template cast<double>());
  c         = toL(g.coeffs());
  return g;
}
static Eigen::VectorXd vec_coords(Rng & r, int n)
{
  // coordinates zero or of magnitude 0.1 .. 10 (the accuracy domain of the statement)
  return Eigen::VectorXd::NullaryExpr(n, [&]() { return r.coin(0.2) ? 0.0 : (r.coin() ? 1 : -1) * r.loguni(0.1, 10); });
}
static Mat Tmat(const Eigen::VectorXd & v) { return orc::L_Tn(int(v.size()))->matrix(toL(v)); }

// ------------------------------------------------------------------ analytic / default: verbatim
struct Verbatim
{
  Eigen::Matrix<double, 3, 6> Jm;
  Eigen::Matrix<double, 6, 18> Hm;
  mutable int nf = 0, nj = 0, nh = 0;
  mutable std::vector<double> seen;
  Eigen::Vector3d operator()(const smooth::SO3d & g, const Eigen::Vector3d & v) const
  {
    ++nf;
    return g * v;
  }
  Eigen::Matrix<double, 3, 6> jacobian(const smooth::SO3d & g, const Eigen::Vector3d & v) const
  {
    ++nj;
    seen = flat(g, v);
    return Jm;
  }
  Eigen::Matrix<double, 6, 18> hessian(const smooth::SO3d & g, const Eigen::Vector3d & v) const
  {
    ++nh;
    seen = flat(g, v);
    return Hm;
  }
};

int main(int argc, char ** argv)
{
  Args args = parse_args(argc, argv);
  Report rep(args);
  using namespace smooth;
  const LayoutP lso3 = TI<SO3d>::layout(), lse3 = TI<SE3d>::layout(), lse2 = TI<SE2d>::layout();

  // ---- A. group product, result is a group element
  rep.run_stream("product_SO3", NQ(rep, 60, 1500), [&](Rng & r, long i) {
    Vec c1, c2;
    SO3d g1 = mod_elem<SO3d>(*lso3, r, c1), g2 = mod_elem<SO3d>(*lso3, r, c2);
    CaseCtx c{rep, "product_SO3", i % 2 ? "const_args" : "mutable_args", [&]() { return JObj().raw("g1", hexv(c1)).raw("g2", hexv(c2)).done(); }};
    rep.note_input(Report::hash_vec(c2, Report::hash_vec(c1)), true);
    auto f  = [](const auto & a, const auto & b) { return a * b; };
    OFun fo = [](const std::vector<Mat> & m) { return Mat(m[0] * m[1]); };
    std::vector<Slot> s{{lso3, lso3->matrix(c1)}, {lso3, lso3->matrix(c2)}};
    if (i % 2) {
      const SO3d & k1 = g1;
      const SO3d & k2 = g2;
      check_case<true>(c, f, fo, lso3, s, k1, k2);
    } else {
      check_case<true>(c, f, fo, lso3, s, g1, g2);
      check_subsets2(c, f, fo, lso3, s, 3, 3, g1, g2);
    }
  });
  rep.run_stream("product_SE2", NQ(rep, 60, 1500), [&](Rng & r, long) {
    Vec c1, c2;
    SE2d g1 = mod_elem<SE2d>(*lse2, r, c1), g2 = mod_elem<SE2d>(*lse2, r, c2);
    CaseCtx c{rep, "product_SE2", "mutable_args", [&]() { return JObj().raw("g1", hexv(c1)).raw("g2", hexv(c2)).done(); }};
    rep.note_input(Report::hash_vec(c2, Report::hash_vec(c1)), true);
    auto f  = [](const auto & a, const auto & b) { return a * b; };
    OFun fo = [](const std::vector<Mat> & m) { return Mat(m[0] * m[1]); };
    std::vector<Slot> s{{lse2, lse2->matrix(c1)}, {lse2, lse2->matrix(c2)}};
    check_case<true>(c, f, fo, lse2, s, g1, g2);
  });

  // ---- B. log of a product on SE3
  rep.run_stream("logprod_SE3", NQ(rep, 40, 1000), [&](Rng & r, long) {
    Vec c1, c2;
    SE3d g1 = mod_elem<SE3d>(*lse3, r, c1), g2 = mod_elem<SE3d>(*lse3, r, c2);
    CaseCtx c{rep, "logprod_SE3", "mutable_args", [&]() { return JObj().raw("g1", hexv(c1)).raw("g2", hexv(c2)).done(); }};
    rep.note_input(Report::hash_vec(c2, Report::hash_vec(c1)), true);
    const LayoutP lout = orc::L_Tn(6);
    auto f  = [](const auto & a, const auto & b) -> Eigen::Matrix<double, 6, 1> { return (a * b).log(); };
    OFun fo = [&](const std::vector<Mat> & m) { return lout->matrix(orc::log_ref(*lse3, m[0] * m[1])); };
    std::vector<Slot> s{{lse3, lse3->matrix(c1)}, {lse3, lse3->matrix(c2)}};
    check_case<false>(c, f, fo, lout, s, g1, g2);
    check_subsets2(c, f, fo, lout, s, 6, 6, g1, g2);
  });

  // ---- C. action g * v
  rep.run_stream("action_SE3", NQ(rep, 60, 1500), [&](Rng & r, long i) {
    Vec c1;
    SE3d g = mod_elem<SE3d>(*lse3, r, c1);
    Eigen::Vector3d v = vec_coords(r, 3);
    CaseCtx c{rep, "action_SE3", i % 2 ? "const_vec" : "mutable_args", [&]() { return JObj().raw("g", hexv(c1)).raw("v", hexv(v)).done(); }};
    rep.note_input(Report::hash_vec(toL(v), Report::hash_vec(c1)), true);
    const LayoutP lv = orc::L_Tn(3);
    auto f  = [](const auto & a, const auto & b) -> Eigen::Vector3d { return a * b; };
    OFun fo = [&](const std::vector<Mat> & m) { return lv->matrix(lse3->act(m[0], Vec(m[1].block(0, 3, 3, 1)))); };
    std::vector<Slot> s{{lse3, lse3->matrix(c1)}, {lv, Tmat(v)}};
    if (i % 2) {
      const Eigen::Vector3d & kv = v;
      check_case<true>(c, f, fo, lv, s, g, kv);
    } else {
      check_case<true>(c, f, fo, lv, s, g, v);
      check_subsets2(c, f, fo, lv, s, 6, 3, g, v);
    }
  });

  // ---- D. three arguments: rminus(g1 * exp(v), g2)
  rep.run_stream("rminus3_SO3", NQ(rep, 60, 1500), [&](Rng & r, long) {
    Vec c1, c2;
    SO3d g1 = mod_elem<SO3d>(*lso3, r, c1);
    // keep g2 close enough that the difference stays well inside the injectivity radius
    Vec da(3);
    for (int k = 0; k < 3; ++k) da(k) = 0.8 * r.sym();
    SO3d g2 = g1 + da.cast<double>();
    c2      = toL(g2.coeffs());
    Eigen::Vector3d v = 0.1 * vec_coords(r, 3);
    CaseCtx c{rep, "rminus3_SO3", "mutable_args", [&]() { return JObj().raw("g1", hexv(c1)).raw("g2", hexv(c2)).raw("v", hexv(v)).done(); }};
    rep.note_input(Report::hash_vec(toL(v), Report::hash_vec(c2, Report::hash_vec(c1))), true);
    const LayoutP lv = orc::L_Tn(3);
    auto f  = [](const auto & a, const auto & vv, const auto & b) -> Eigen::Vector3d { return smooth::rminus(smooth::rplus(a, vv), b); };
    OFun fo = [&](const std::vector<Mat> & m) {
      return lv->matrix(orc::log_ref(*lso3, orc::inv(m[2]) * m[0] * orc::expm(lso3->hat(Vec(m[1].block(0, 3, 3, 1))))));
    };
    std::vector<Slot> s{{lso3, lso3->matrix(c1)}, {lv, Tmat(v)}, {lso3, lso3->matrix(c2)}};
    check_case<true>(c, f, fo, lv, s, g1, v, g2);
    check_subsets3(c, f, fo, lv, s, {3, 3, 3}, g1, v, g2);
  });

  // ---- E. std::vector<G> argument (dynamic dof)
  rep.run_stream("vector_of_SO3", NQ(rep, 60, 1500), [&](Rng & r, long) {
    const int n = 1 + r.below(4);
    std::vector<SO3d> gs;
    std::vector<Slot> s;
    Vec call(4 * n);
    for (int k = 0; k < n; ++k) {
      Vec ck;
      gs.push_back(mod_elem<SO3d>(*lso3, r, ck));
      s.push_back({lso3, lso3->matrix(ck)});
      call.segment(4 * k, 4) = ck;
    }
    CaseCtx c{rep, "vector_of_SO3", "n=" + std::to_string(n), [&]() { return JObj().integer("n", n).raw("gs", hexv(call)).done(); }};
    rep.note_input(Report::hash_vec(call), true);
    const LayoutP lv = orc::L_Tn(3);
    auto f = [](const auto & v) -> Eigen::Vector3d {
      Eigen::Vector3d acc = Eigen::Vector3d::Zero();
      for (const auto & g : v) acc += g.log();
      return acc;
    };
    OFun fo = [&](const std::vector<Mat> & m) {
      Vec acc = Vec::Zero(3);
      for (auto & mi : m) acc += orc::log_ref(*lso3, mi);
      return lv->matrix(acc);
    };
    check_case<true>(c, f, fo, lv, s, gs);
  });

  // ---- E2. several arguments of mixed static / dynamic size in every position (the column / block offsets of the
  // arguments that FOLLOW a dynamic-size argument depend on its run-time size)
  rep.run_stream("mixed_static_dynamic", NQ(rep, 90, 2400), [&](Rng & r, long i) {
    const int n = 1 + r.below(3);
    std::vector<SO3d> hs;
    std::vector<Slot> sh;
    Vec call(4 * n);
    for (int k = 0; k < n; ++k) {
      Vec ck;
      hs.push_back(mod_elem<SO3d>(*lso3, r, ck));
      sh.push_back({lso3, lso3->matrix(ck)});
      call.segment(4 * k, 4) = ck;
    }
    Vec cg;
    SO3d g            = mod_elem<SO3d>(*lso3, r, cg);
    Eigen::Vector3d p = vec_coords(r, 3);
    Eigen::VectorXd w = vec_coords(r, 3);  // dynamic-size vector of length 3
    const LayoutP lv  = orc::L_Tn(3);
    const int variant = int(i % 3);
    CaseCtx c{rep, "mixed_static_dynamic", std::string(variant == 0 ? "(SO3,vector<SO3>,R3)" : (variant == 1 ? "(RXd,SO3)" : "(vector<SO3>,R3,RXd)")) + ",n=" + std::to_string(n),
      [&]() { return JObj().integer("n", n).raw("hs", hexv(call)).raw("g", hexv(cg)).raw("p", hexv(p)).raw("w", hexv(w)).done(); }};
    rep.note_input(Report::hash_vec(call, Report::hash_vec(cg, Report::hash_vec(toL(p)))), true);
    auto vecpart = [](const Mat & T) { return Vec(T.block(0, 3, 3, 1)); };
    if (variant == 0) {
      auto f = [](const auto & gg, const auto & hh, const auto & pp) -> Eigen::Vector3d {
        auto acc = gg;
        for (const auto & h : hh) acc = acc * h;
        return acc * pp;
      };
      OFun fo = [&](const std::vector<Mat> & m) {
        Mat R = m[0];
        for (int k = 0; k < n; ++k) R = R * m[size_t(1 + k)];
        return lv->matrix(Vec(R * vecpart(m[size_t(1 + n)])));
      };
      std::vector<Slot> s{{lso3, lso3->matrix(cg)}};
      for (auto & x : sh) s.push_back(x);
      s.push_back({lv, Tmat(p)});
      check_case<true>(c, f, fo, lv, s, g, hs, p);
    } else if (variant == 1) {
      auto f  = [](const auto & ww, const auto & gg) -> Eigen::Vector3d { return gg * Eigen::Vector3d(ww); };
      OFun fo = [&](const std::vector<Mat> & m) { return lv->matrix(Vec(m[1] * vecpart(m[0]))); };
      std::vector<Slot> s{{lv, Tmat(w)}, {lso3, lso3->matrix(cg)}};
      check_case<true>(c, f, fo, lv, s, w, g);
    } else {
      auto f = [](const auto & hh, const auto & pp, const auto & ww) -> Eigen::Vector3d {
        SO3d acc = SO3d::Identity();
        for (const auto & h : hh) acc = acc * h;
        return acc * (pp + Eigen::Vector3d(ww));
      };
      OFun fo = [&](const std::vector<Mat> & m) {
        Mat R = orc::eye(3);
        for (int k = 0; k < n; ++k) R = R * m[size_t(k)];
        return lv->matrix(Vec(R * (vecpart(m[size_t(n)]) + vecpart(m[size_t(n + 1)]))));
      };
      std::vector<Slot> s = sh;
      s.push_back({lv, Tmat(p)});
      s.push_back({lv, Tmat(w)});
      check_case<true>(c, f, fo, lv, s, hs, p, w);
    }
  });

  // ---- F. Bundle argument
  rep.run_stream("bundle_arg", NQ(rep, 60, 1500), [&](Rng & r, long) {
    using B = Bundle<SO3d, Eigen::Vector3d>;
    Vec c1;
    const SO3d g = mod_elem<SO3d>(*lso3, r, c1);
    B b;
    b.part<0>() = g;
    b.part<1>() = vec_coords(r, 3);
    const LayoutP lb = TI<B>::layout(), lv = orc::L_Tn(3);
    const Vec cb     = toL(b.coeffs());
    CaseCtx c{rep, "bundle_arg", "mutable_args", [&]() { return JObj().raw("b", hexv(cb)).done(); }};
    rep.note_input(Report::hash_vec(cb), true);
    auto f  = [](const auto & bb) -> Eigen::Vector3d { return bb.template part<0>() * bb.template part<1>(); };
    OFun fo = [&](const std::vector<Mat> & m) { return lv->matrix(Vec(m[0].block(0, 0, 3, 3) * m[0].block(3, 6, 3, 1))); };
    std::vector<Slot> s{{lb, lb->matrix(cb)}};
    check_case<true>(c, f, fo, lv, s, b);
  });

  // ---- G. scalar * vector, and polynomial maps with hand derivatives (static + dynamic)
  rep.run_stream("scalar_vector", NQ(rep, 100, 3000), [&](Rng & r, long) {
    double sc = (r.coin() ? 1 : -1) * r.loguni(0.1, 10);
    Eigen::Vector3d v = vec_coords(r, 3);
    CaseCtx c{rep, "scalar_vector", "mutable_args", [&]() { return JObj().num("s", sc).raw("v", hexv(v)).done(); }};
    rep.note_input(Report::hash_vec(toL(v), hash_bytes(&sc, sizeof sc)), true);
    const LayoutP l1 = orc::L_Tn(1), lv = orc::L_Tn(3);
    auto f  = [](const auto & a, const auto & b) -> Eigen::Vector3d { return a * b; };
    OFun fo = [&](const std::vector<Mat> & m) { return lv->matrix(Vec(m[0](0, 1) * m[1].block(0, 3, 3, 1))); };
    Eigen::VectorXd s1(1);
    s1 << sc;
    std::vector<Slot> s{{l1, Tmat(s1)}, {lv, Tmat(v)}};
    check_case<true>(c, f, fo, lv, s, sc, v);
    check_subsets2(c, f, fo, lv, s, 1, 3, sc, v);
  });
  rep.run_stream("polynomial_map", NQ(rep, 150, 4000), [&](Rng & r, long i) {
    const int n = 1 + r.below(6), m = 1 + r.below(4);
    std::vector<Eigen::MatrixXd> P;
    Eigen::MatrixXd p(m, n);
    for (int j = 0; j < m; ++j) {
      Eigen::MatrixXd Pj(n, n);
      for (int a = 0; a < n; ++a)
        for (int b = a; b < n; ++b) Pj(a, b) = Pj(b, a) = 0.3 * r.sym();
      P.push_back(Pj);
      for (int a = 0; a < n; ++a) p(j, a) = r.sym();
    }
    Eigen::VectorXd x = vec_coords(r, n);
    // keep values O(1): scale the point into [-2, 2]
    x = x.unaryExpr([](double t) { return std::abs(t) > 2 ? t / 5 : t; });
    auto f = [&](const auto & xx) -> Eigen::VectorXd {
      Eigen::VectorXd y(m);
      for (int j = 0; j < m; ++j) y(j) = 0.5 * xx.dot(P[size_t(j)] * xx) + p.row(j).dot(xx);
      return y;
    };
    // hand derivatives in long double
    Mat Jh(m, n), Hh(n, m * n);
    const Mat xl = toL(x);
    for (int j = 0; j < m; ++j) {
      Jh.row(j)                = (toL(P[size_t(j)]) * xl).transpose() + toL(p).row(j);
      Hh.block(0, j * n, n, n) = toL(P[size_t(j)]);
    }
    const std::string st = std::string(i % 2 ? "dynamic" : "static3") + ",n=" + std::to_string(n) + ",m=" + std::to_string(m);
    auto det = [&]() { return JObj().integer("n", n).integer("m", m).raw("x", hexv(x)).done(); };
    rep.note_input(Report::hash_vec(xl, Report::hash_vec(toL(p))), true);
    const auto before = flat(x);
    const auto [val, J, H] = smooth::diff::dr<2, DT::Numerical>(f, smooth::wrt(x));
    rep.judge("polynomial_map.K2.value", st, orc::maxabs(toL(val) - toL(f(x))), 0, det);
    rep.judge("polynomial_map.K2.jacobian", st, relerr(toL(J), Jh), 2e-3L, det);
    rep.judge("polynomial_map.K2.hessian", st, relerr(toL(H), Hh), 5e-2L, det);
    const auto [val1, J1] = smooth::diff::dr<1, DT::Numerical>(f, smooth::wrt(x));
    rep.judge("polynomial_map.K1.jacobian", st, relerr(toL(J1), Jh), 1e-4L, det);
    const auto after = flat(x);
    L worst = 0, cmax = 1e-300L;
    for (size_t k = 0; k < before.size(); ++k) {
      worst = std::max(worst, fabsl(L(before[k]) - L(after[k])));
      cmax  = std::max(cmax, fabsl(L(before[k])));
    }
    rep.judge("polynomial_map.args_restored", st, worst / cmax, 1e-15L, det);
    (void)val1;
  });

  // ---- H. scalar-valued function of a group element, K = 2
  rep.run_stream("half_sqnorm_log", NQ(rep, 60, 1500), [&](Rng & r, long i) {
    const LayoutP l1 = orc::L_Tn(1);
    auto run = [&]<typename G>(const LayoutP & lg, const char * name) {
      Vec c1;
      G g = mod_elem<G>(*lg, r, c1);
      CaseCtx c{rep, std::string("half_sqnorm_log_") + name, "mutable_args", [&]() { return JObj().raw("g", hexv(c1)).done(); }};
      rep.note_input(Report::hash_vec(c1), true);
      auto f  = [](const auto & a) -> double { return 0.5 * a.log().squaredNorm(); };
      OFun fo = [&](const std::vector<Mat> & m) {
        Vec v(1);
        v << 0.5L * orc::log_ref(*lg, m[0]).squaredNorm();
        return l1->matrix(v);
      };
      std::vector<Slot> s{{lg, lg->matrix(c1)}};
      check_case<true>(c, f, fo, l1, s, g);
    };
    if (i % 2) run.template operator()<SO3d>(lso3, "SO3");
    else run.template operator()<SE2d>(lse2, "SE2");
  });

  // ---- I. Analytic and Default modes return the callable's own derivatives verbatim
  rep.run_stream("verbatim", NQ(rep, 300, 6000), [&](Rng & r, long) {
    Verbatim f;
    f.Jm = Eigen::Matrix<double, 3, 6>::NullaryExpr([&]() { return r.sym() * 1e3; });
    f.Hm = Eigen::Matrix<double, 6, 18>::NullaryExpr([&]() { return r.sym() * 1e3; });
    Vec c1;
    SO3d g = mod_elem<SO3d>(*lso3, r, c1);
    Eigen::Vector3d v = vec_coords(r, 3);
    const auto before = flat(g, v);
    auto det = [&]() { return JObj().raw("g", hexv(c1)).raw("v", hexv(v)).integer("nf", f.nf).integer("nj", f.nj).integer("nh", f.nh).done(); };
    rep.note_input(Report::hash_vec(toL(v), Report::hash_vec(c1)), true);
    {
      const auto [val, J] = smooth::diff::dr<1, DT::Analytic>(f, smooth::wrt(g, v));
      rep.require("verbatim.analytic.K1.jacobian", "K1", (J.array() == f.Jm.array()).all(), det);
      rep.require("verbatim.analytic.K1.value", "K1", (val.array() == (g * v).array()).all(), det);
      rep.require("verbatim.analytic.K1.called_once", "K1", f.nj == 1 && f.nh == 0 && f.seen == before, det);
    }
    f.nf = f.nj = f.nh = 0;
    {
      const auto [val, J, H] = smooth::diff::dr<2, DT::Analytic>(f, smooth::wrt(g, v));
      rep.require("verbatim.analytic.K2.jacobian", "K2", (J.array() == f.Jm.array()).all(), det);
      rep.require("verbatim.analytic.K2.hessian", "K2", (H.array() == f.Hm.array()).all(), det);
      rep.require("verbatim.analytic.K2.called_once", "K2", f.nj == 1 && f.nh == 1 && f.seen == before, det);
      (void)val;
    }
    f.nf = f.nj = f.nh = 0;
    {
      const auto [val, J] = smooth::diff::dr<1>(f, smooth::wrt(g, v));
      rep.require("verbatim.default.K1.jacobian", "K1", (J.array() == f.Jm.array()).all() && f.nj == 1, det);
      const auto [val2, J2, H2] = smooth::diff::dr<2>(f, smooth::wrt(g, v));
      rep.require("verbatim.default.K2.hessian", "K2", (H2.array() == f.Hm.array()).all() && (J2.array() == f.Jm.array()).all(), det);
      (void)val; (void)val2;
    }
    {
      const auto t0 = smooth::diff::dr<0, DT::Analytic>(f, smooth::wrt(g, v));
      rep.require("verbatim.K0.value_only", "K0", std::tuple_size_v<std::decay_t<decltype(t0)>> == 1 && (std::get<0>(t0).array() == (g * v).array()).all(), det);
    }
    rep.require("verbatim.args_untouched", "all", flat(g, v) == before, det);
  });

  rep.write();
  return 0;
}
