// Monitors C01..C05: group law, exp/log, adjoint representation, first and second derivatives.
// Real library code is run on stratified hostile inputs; every result is compared with the
// long-double oracle built from the documented matrix forms.
#include <Eigen/Sparse>
#include <smooth/derivatives.hpp>

#include "harness/gen.hpp"

using namespace vh;

#ifndef TS
#define TS 0
#endif
#ifndef PROP
#error "compile with -DPROP=1..5"
#endif

template<typename S>
constexpr L tolsel(L d, L f)
{
  return std::is_same_v<S, float> ? f : d;
}

template<typename G>
struct ActDim
{
  static constexpr int value = 0;
};
template<typename S> struct ActDim<smooth::SO2<S>> { static constexpr int value = 2; };
template<typename S> struct ActDim<smooth::SO3<S>> { static constexpr int value = 3; };
template<typename S> struct ActDim<smooth::SE2<S>> { static constexpr int value = 2; };
template<typename S> struct ActDim<smooth::SE3<S>> { static constexpr int value = 3; };
template<typename S> struct ActDim<smooth::C1<S>> { static constexpr int value = 2; };
template<typename S> struct ActDim<smooth::Galilei<S>> { static constexpr int value = 4; };
template<typename G>
struct HasDrAction
{
  static constexpr bool value = ActDim<G>::value > 0;
};
template<typename S> struct HasDrAction<smooth::C1<S>> { static constexpr bool value = false; };

static long NQ(const Report & rep, long quick, long thorough) { return rep.args.tier ? thorough : quick; }

static int pick_ang(Rng & r)
{
  static const int m[] = {R_ZERO, R_TINY, R_BAND, R_GENERIC, R_GENERIC, R_NEARPI, R_EXACTPI, R_INV_NEARPI};
  return m[r.below(8)];
}
static int pick_tr(Rng & r) { return r.below(4); }

template<typename G>
static G gen_elem(const Layout & l, Rng & r, Vec & c_out, L & ang, L & trm)
{
  using S = typename G::Scalar;
  G g;
  const int src = r.below(10);
  if (src < 7) {
    c_out = gen_coeffs<S>(l, r, pick_ang(r), pick_tr(r));
    g     = make_elem<G>(c_out);
  } else if (src < 9) {
    // through the library's exponential
    const Vec a = gen_tangent<S>(l, r, pick_ang(r), pick_tr(r));
    g           = G::exp(a.template cast<S>());
    c_out       = toL(g.coeffs());
  } else {
    g     = G::Identity();
    c_out = toL(g.coeffs());
  }
  ang = element_angle(l, c_out);
  trm = coeff_trmax(l, c_out);
  return g;
}

static std::string elabel(L ang, L trm) { return "ang:" + rot_label(ang) + ",tr:" + tr_label(trm); }

// =================================================================== C01
template<typename G>
void run_c01(Report & rep)
{
  using S           = typename G::Scalar;
  const LayoutP lp  = TI<G>::layout();
  const Layout & l  = *lp;
  const std::string T = TI<G>::name();
  const L tol       = tolsel<S>(1e-12L, 1e-5L);

  rep.run_stream(T + ".group", NQ(rep, 2000, 60000), [&](Rng & r, long) {
    Vec c1, c2, c3;
    L a1, a2, a3, t1, t2, t3;
    const G g1 = gen_elem<G>(l, r, c1, a1, t1);
    const G g2 = gen_elem<G>(l, r, c2, a2, t2);
    const G g3 = gen_elem<G>(l, r, c3, a3, t3);
    const std::string st = elabel(std::max(a1, a2), std::max(t1, t2));
    const Mat M1 = l.matrix(c1), M2 = l.matrix(c2), M3 = l.matrix(c3);
    auto det = [&]() { return JObj().str("type", T).raw("g1", hexv(c1)).raw("g2", hexv(c2)).raw("g3", hexv(c3)).done(); };
    uint64_t h = Report::hash_vec(c1);
    h          = Report::hash_vec(c2, h);
    rep.note_input(h, (M1 - orc::eye(l.dim)).norm() > 0 || (M2 - orc::eye(l.dim)).norm() > 0);

    const G g12    = g1 * g2;
    const Mat M12  = l.matrix(toL(g12.coeffs()));
    rep.judge(T + ".compose", st, orc::err_rel1(M12, M1 * M2), tol, det);
    rep.judge(T + ".matrix", st, orc::err_rel1(toL(g1.matrix()), M1), tol, det);
    const G gi = g1.inverse();
    rep.judge(T + ".inverse", st, orc::err_rel1(l.matrix(toL(gi.coeffs())), orc::inv(M1)), tol, det);
    // consequences
    const G g12_3 = g12 * g3, g1_23 = g1 * (g2 * g3);
    rep.judge(T + ".assoc", st, orc::err_rel1(l.matrix(toL(g12_3.coeffs())), l.matrix(toL(g1_23.coeffs()))), 4 * tol, det);
    rep.judge(T + ".assoc_ref", st, orc::err_rel1(l.matrix(toL(g12_3.coeffs())), M1 * M2 * M3), 4 * tol, det);
    // g g^-1 = I is computed through intermediates of size |M||M^-1|: that product is the scale of its rounding error
    const L cond = std::max<L>(1, orc::maxabs(M1) * orc::maxabs(orc::inv(M1)));
    rep.judge(T + ".inv_left", st, orc::err_rel1(l.matrix(toL((gi * g1).coeffs())), orc::eye(l.dim)), 4 * tol * cond, det);
    rep.judge(T + ".inv_right", st, orc::err_rel1(l.matrix(toL((g1 * gi).coeffs())), orc::eye(l.dim)), 4 * tol * cond, det);
    const G id = G::Identity();
    rep.judge(T + ".identity", st, orc::maxabs(l.matrix(toL(id.coeffs())) - orc::eye(l.dim)), 0, det);
    rep.judge(T + ".id_left", st, orc::err_rel1(l.matrix(toL((id * g1).coeffs())), M1), tol, det);
    rep.judge(T + ".id_right", st, orc::err_rel1(l.matrix(toL((g1 * id).coeffs())), M1), tol, det);
    // other entry points must be the same operation
    {
      G x = g1;
      x *= g2;
      rep.judge(T + ".compose_inplace", st, orc::maxabs(toL(x.coeffs()) - toL(g12.coeffs())), 0, det);
      const auto y = smooth::composition(g1, g2, g3);
      rep.judge(T + ".compose_free", st, orc::maxabs(toL(y.coeffs()) - toL(g12_3.coeffs())), 0, det);
      const auto z = smooth::inverse(g1);
      rep.judge(T + ".inverse_free", st, orc::maxabs(toL(z.coeffs()) - toL(gi.coeffs())), 0, det);
      Eigen::Matrix<S, G::RepSize, 1> buf = g2.coeffs();
      smooth::Map<const G> m2(buf.data());
      const G w = g1 * m2;
      rep.judge(T + ".compose_map", st, orc::err_rel1(l.matrix(toL(w.coeffs())), M1 * M2), tol, det);
    }
    if constexpr (ActDim<G>::value > 0) {
      constexpr int P = ActDim<G>::value;
      Eigen::Matrix<S, P, 1> v;
      const int vm = r.below(4);
      for (int i = 0; i < P; ++i) v(i) = S(rand_tr(r, vm));
      const Vec vl  = toL(v);
      const Vec ref = l.act(M1, vl);
      const Vec got = toL((g1 * v).eval());
      auto det2     = [&]() { return JObj().str("type", T).raw("g1", hexv(c1)).raw("v", hexv(vl)).done(); };
      rep.judge(T + ".action", st, orc::err_rel1(got, ref), tol * std::max<L>(1, orc::maxabs(M1)), det2);
    }
  });
}

// =================================================================== C02
template<typename G>
void run_c02(Report & rep)
{
  using S             = typename G::Scalar;
  const LayoutP lp    = TI<G>::layout();
  const Layout & l    = *lp;
  const std::string T = TI<G>::name();
  const L tol = tolsel<S>(1e-9L, 1e-3L), tol_pi = tolsel<S>(1e-7L, 1e-2L), band_pi = tolsel<S>(1e-5L, 1e-2L);
  const L epsS = std::numeric_limits<S>::epsilon();

  // exp
  rep.run_stream(T + ".exp", NQ(rep, 3000, 100000), [&](Rng & r, long) {
    static const int modes[] = {R_ZERO, R_TINY, R_BAND, R_BAND, R_BAND, R_GENERIC, R_NEARPI, R_EXACTPI, R_BEYOND, R_BEYOND};
    const Vec a    = gen_tangent<S>(l, r, modes[r.below(10)], pick_tr(r));
    const TInfo ti = classify_tangent(l, a);
    const Eigen::Matrix<S, G::Dof, 1> as = a.template cast<S>();
    const G g      = G::exp(as);
    const Mat ref  = orc::exp_ref(l, a);
    auto det       = [&]() { return JObj().str("type", T).raw("a", hexv(a)).raw("exp_lib", hexv(toL(g.coeffs()))).done(); };
    rep.note_input(Report::hash_vec(a), a.norm() > 0);
    rep.judge(T + ".exp", ti.label(), orc::err_rel1(l.matrix(toL(g.coeffs())), ref), tol, det);
    const auto g2 = smooth::exp<G>(as);
    rep.judge(T + ".exp_free", ti.label(), orc::maxabs(toL(g2.coeffs()) - toL(g.coeffs())), 0, det);
  });

  // log of elements: principal branch + exp(log g) = g
  rep.run_stream(T + ".log", NQ(rep, 3000, 100000), [&](Rng & r, long) {
    Vec c;
    L ang, trm;
    const G g  = gen_elem<G>(l, r, c, ang, trm);
    const Mat M = l.matrix(c);
    const Eigen::Matrix<S, G::Dof, 1> lg = g.log();
    const Vec a = toL(lg);
    auto det    = [&]() { return JObj().str("type", T).raw("g", hexv(c)).raw("log_lib", hexv(a)).done(); };
    rep.note_input(Report::hash_vec(c), ang > 0 || trm > 0);
    const std::string st = elabel(ang, trm);
    L worst = 0;
    for (auto [s, n] : l.rotblocks) worst = std::max(worst, a.segment(s, n).norm());
    rep.judge(T + ".log_principal", st, worst, PI_L * (1 + 4 * epsS), det);
    const bool near_pi = (PI_L - ang) < band_pi;
    rep.judge(T + (near_pi ? ".explog_nearpi" : ".explog"), st, orc::err_rel1(orc::exp_ref(l, a), M), near_pi ? tol_pi : tol, det);
    const auto lg2 = smooth::log(g);
    rep.judge(T + ".log_free", st, orc::maxabs(toL(lg2) - a), 0, det);
  });

  // log(exp(a)) = a for rotation norm below pi
  rep.run_stream(T + ".logexp", NQ(rep, 3000, 100000), [&](Rng & r, long) {
    static const int modes[] = {R_ZERO, R_TINY, R_BAND, R_BAND, R_BAND, R_GENERIC, R_GENERIC, R_NEARPI, R_INV_NEARPI, R_NEARPI};
    const Vec a    = gen_tangent<S>(l, r, modes[r.below(10)], pick_tr(r));
    const TInfo ti = classify_tangent(l, a);
    // sampled only where exp(a) has a robustly non-negative scalar part (see DESIGN C02)
    const L margin = tolsel<S>(1e-9L, 1e-4L);
    if (!(ti.rotmax <= PI_L - margin)) {
      rep.count("C02.logexp.skipped_at_pi");
      return;
    }
    const Eigen::Matrix<S, G::Dof, 1> as = a.template cast<S>();
    const Vec back = toL(G::exp(as).log());
    auto det       = [&]() { return JObj().str("type", T).raw("a", hexv(a)).raw("logexp_lib", hexv(back)).done(); };
    rep.note_input(Report::hash_vec(a), a.norm() > 0);
    const bool near_pi = (PI_L - ti.rotmax) < band_pi;
    rep.judge(T + (near_pi ? ".logexp_nearpi" : ".logexp"), ti.label(), orc::err_rel1(back, a), near_pi ? tol_pi : tol, det);
  });
}

// =================================================================== C03
template<typename G>
void run_c03(Report & rep)
{
  using S             = typename G::Scalar;
  const LayoutP lp    = TI<G>::layout();
  const Layout & l    = *lp;
  const std::string T = TI<G>::name();
  const L tol         = tolsel<S>(1e-12L, 1e-5L);
  using Tangent       = Eigen::Matrix<S, G::Dof, 1>;

  rep.run_stream(T + ".adjoint", NQ(rep, 2000, 50000), [&](Rng & r, long) {
    Vec c1, c2;
    L a1, a2, t1, t2;
    const G g1 = gen_elem<G>(l, r, c1, a1, t1);
    const G g2 = gen_elem<G>(l, r, c2, a2, t2);
    static const int modes[] = {R_ZERO, R_TINY, R_BAND, R_GENERIC, R_GENERIC, R_NEARPI, R_BEYOND};
    const Vec a = gen_tangent<S>(l, r, modes[r.below(7)], pick_tr(r));
    const Vec b = gen_tangent<S>(l, r, modes[r.below(7)], pick_tr(r));
    const Vec cc = gen_tangent<S>(l, r, R_GENERIC, pick_tr(r));
    const Tangent as = a.template cast<S>(), bs = b.template cast<S>(), cs = cc.template cast<S>();
    const TInfo ti = classify_tangent(l, a);
    const std::string st = elabel(a1, t1), stt = ti.label();
    const Mat M1 = l.matrix(c1), M2 = l.matrix(c2);
    auto det = [&]() {
      return JObj().str("type", T).raw("g1", hexv(c1)).raw("g2", hexv(c2)).raw("a", hexv(a)).raw("b", hexv(b)).raw("c", hexv(cc)).done();
    };
    uint64_t h = Report::hash_vec(c1);
    h          = Report::hash_vec(a, h);
    rep.note_input(h, a.norm() > 0 || a1 > 0);

    // hat / vee
    const Mat Hl = toL(G::hat(as));
    rep.judge(T + ".hat", stt, orc::err_rel1(Hl, l.hat(a)), 0, det);
    rep.judge(T + ".vee_hat", stt, orc::maxabs(toL(G::vee(G::hat(as))) - a), 0, det);
    {
      // hat(vee(A)) = A on algebra matrices (built by the oracle's hat, linear combination of two)
      const Mat A  = l.hat(a) + l.hat(b);
      const Eigen::Matrix<S, G::Dim, G::Dim> As = A.template cast<S>();
      const Mat Al = toL(As);
      rep.judge(T + ".hat_vee", stt, orc::err_rel1(toL(G::hat(G::vee(As))), Al), 4 * std::numeric_limits<S>::epsilon(), det);
      // linearity
      const Tangent ab = as + bs;
      rep.judge(T + ".hat_linear", stt, orc::err_rel1(toL(G::hat(ab)), toL(G::hat(as)) + toL(G::hat(bs))), 4 * std::numeric_limits<S>::epsilon(), det);
    }
    // Ad, ad, bracket against the definitions
    const Mat Adl = toL(g1.Ad());
    rep.judge(T + ".Ad", st, orc::err_rel1(Adl, orc::Ad_ref(l, M1)), tol, det);
    rep.judge(T + ".Ad_free", st, orc::maxabs(toL(smooth::Ad(g1)) - Adl), 0, det);
    const Mat adl = toL(G::ad(as));
    rep.judge(T + ".ad", stt, orc::err_rel1(adl, orc::ad_ref(l, a)), tol, det);
    const Vec br = toL(G::lie_bracket(as, bs));
    rep.judge(T + ".bracket", stt, orc::err_rel1(br, orc::bracket_ref(l, a, b)), tol * std::max<L>(1, std::min(orc::maxabs(a), orc::maxabs(b))), det);
    rep.judge(T + ".ad_is_bracket", stt, orc::err_rel1(toL((G::ad(as) * bs).eval()), br), 4 * std::numeric_limits<S>::epsilon(), det);
    // consequences (library results against each other)
    const Mat Ad12 = toL((g1 * g2).Ad());
    rep.judge(T + ".Ad_homomorphism", st, orc::err_rel1(Ad12, Adl * toL(g2.Ad())), 8 * tol, det);
    {
      const Mat AdE = toL(G::exp(as).Ad());
      rep.judge(T + ".Ad_exp", stt, orc::err_rel1(AdE, orc::expm(adl)), tolsel<S>(1e-9L, 1e-3L), det);
    }
    {
      const Vec ba = toL(G::lie_bracket(bs, as));
      rep.judge(T + ".antisymmetry", stt, orc::err_rel1(br + ba, Vec::Zero(l.dof)), 8 * tol * std::max<L>(1, orc::maxabs(br)), det);
      // Jacobi: [a,[b,c]] + [b,[c,a]] + [c,[a,b]] = 0
      const Tangent bc = G::lie_bracket(bs, cs), ca = G::lie_bracket(cs, as), abk = G::lie_bracket(as, bs);
      const Vec j1 = toL(G::lie_bracket(as, bc)), j2 = toL(G::lie_bracket(bs, ca)), j3 = toL(G::lie_bracket(cs, abk));
      const L scale = std::max<L>(1, std::max(orc::maxabs(j1), std::max(orc::maxabs(j2), orc::maxabs(j3))));
      rep.judge(T + ".jacobi", stt, orc::maxabs(j1 + j2 + j3) / scale, 8 * tol, det);
    }
  });
}

// =================================================================== C04
template<typename G>
void run_c04(Report & rep)
{
  using S             = typename G::Scalar;
  const LayoutP lp    = TI<G>::layout();
  const Layout & l    = *lp;
  const std::string T = TI<G>::name();
  const L tol         = tolsel<S>(1e-7L, 1e-2L);
  using Tangent       = Eigen::Matrix<S, G::Dof, 1>;

  rep.run_stream(T + ".dexp", NQ(rep, 2500, 60000), [&](Rng & r, long) {
    static const int modes[] = {R_ZERO, R_TINY, R_BAND, R_BAND, R_BAND, R_BAND, R_GENERIC, R_NEARPI, R_BEYOND, R_INV_NEARPI};
    const Vec a      = gen_tangent<S>(l, r, modes[r.below(10)], pick_tr(r));
    const TInfo ti   = classify_tangent(l, a);
    const Tangent as = a.template cast<S>();
    const std::string st = ti.label();
    auto det = [&]() { return JObj().str("type", T).raw("a", hexv(a)).done(); };
    rep.note_input(Report::hash_vec(a), a.norm() > 0);
    const Mat Jr = orc::dr_exp_ref(l, a), Jl = orc::dr_exp_ref(l, -a);
    rep.judge(T + ".dr_exp", st, orc::err_relmax(toL(G::dr_exp(as)), Jr), tol, det);
    rep.judge(T + ".dl_exp", st, orc::err_relmax(toL(G::dl_exp(as)), Jl), tol, det);
    rep.judge(T + ".dr_exp_free", st, orc::maxabs(toL(smooth::dr_exp<G>(as)) - toL(G::dr_exp(as))), 0, det);
    // dl_exp = Ad(exp a) dr_exp from the definitions
    if (ti.rotmax <= PI_L - 1e-3L) {
      const Mat Jri = orc::inv(Jr), Jli = orc::inv(Jl);
      rep.judge(T + ".dr_expinv", st, orc::err_relmax(toL(G::dr_expinv(as)), Jri), tol, det);
      rep.judge(T + ".dl_expinv", st, orc::err_relmax(toL(G::dl_expinv(as)), Jli), tol, det);
      rep.judge(T + ".dr_rminus", st, orc::err_relmax(toL(smooth::dr_rminus<G>(as)), Jri), tol, det);
      const Mat sq = a.transpose() * Jri;
      rep.judge(T + ".dr_rminus_squarednorm", st, orc::err_relmax(toL(smooth::dr_rminus_squarednorm<G>(as)), sq), tol, det);
    }
  });

  if constexpr (HasDrAction<G>::value) {
    rep.run_stream(T + ".dr_action", NQ(rep, 1500, 30000), [&](Rng & r, long) {
      constexpr int P = ActDim<G>::value;
      Vec c;
      L ang, trm;
      const G g = gen_elem<G>(l, r, c, ang, trm);
      Eigen::Matrix<S, P, 1> v;
      const int vm = r.below(4);
      for (int i = 0; i < P; ++i) v(i) = S(rand_tr(r, vm));
      const Vec vl = toL(v);
      auto det     = [&]() { return JObj().str("type", T).raw("g", hexv(c)).raw("v", hexv(vl)).done(); };
      rep.note_input(Report::hash_vec(vl, Report::hash_vec(c)), vl.norm() > 0);
      const Mat ref = orc::dr_action_ref(l, l.matrix(c), vl);
      rep.judge(T + ".dr_action", elabel(ang, trm), orc::err_relmax(toL(g.dr_action(v)), ref), tol, det);
    });
  }
}

// =================================================================== C05
template<typename G>
void run_c05(Report & rep)
{
  if constexpr (TI<G>::has_hessian) {
    using S             = typename G::Scalar;
    const LayoutP lp    = TI<G>::layout();
    const Layout & l    = *lp;
    const std::string T = TI<G>::name();
    // the statement bounds double precision only; float is run and reported without verdict
    const bool verdict = std::is_same_v<S, double>;
    const L tol        = verdict ? 1e-5L : INFINITY;
    using Tangent      = Eigen::Matrix<S, G::Dof, 1>;
    const int n        = l.dof;

    rep.run_stream(T + ".d2exp", NQ(rep, l.dof > 6 ? 300 : 1200, l.dof > 6 ? 4000 : 30000), [&](Rng & r, long) {
      static const int modes[] = {R_ZERO, R_TINY, R_BAND, R_BAND, R_BAND, R_BAND, R_GENERIC, R_GENERIC, R_INV_NEARPI, R_INV_NEARPI};
      const Vec a      = gen_tangent<S>(l, r, modes[r.below(10)], pick_tr(r));
      const TInfo ti   = classify_tangent(l, a);
      if (!(ti.rotmax <= PI_L - 1e-3L)) return;
      const Tangent as = a.template cast<S>();
      const std::string st = ti.label() + (verdict ? "" : ",float-noverdict");
      auto det = [&]() { return JObj().str("type", T).raw("a", hexv(a)).done(); };
      rep.note_input(Report::hash_vec(a), a.norm() > 0);
      const Mat Hr = orc::d2r_exp_ref(l, a), Hri = orc::d2r_expinv_ref(l, a);
      rep.judge(T + ".d2r_exp", st, orc::err_relmax(toL(G::d2r_exp(as)), Hr), tol, det);
      rep.judge(T + ".d2r_expinv", st, orc::err_relmax(toL(G::d2r_expinv(as)), Hri), tol, det);
      // left versions: d2l(a) = -d2r(-a) by definition of dl(a) = dr(-a)
      const Mat Hl = -orc::d2r_exp_ref(l, -a), Hli = -orc::d2r_expinv_ref(l, -a);
      rep.judge(T + ".d2l_exp", st, orc::err_relmax(toL(G::d2l_exp(as)), Hl), tol, det);
      rep.judge(T + ".d2l_expinv", st, orc::err_relmax(toL(G::d2l_expinv(as)), Hli), tol, det);
      // rminus Hessians: e(delta) = rminus(x (+) delta, y); d e = Jinv(e); d2 e_j = sum_m d_m Jinv(j,:) Jinv(m,:)
      const Mat Ji = orc::dr_expinv_ref(l, a);
      Mat Hrm(n, n * n);
      for (int j = 0; j < n; ++j) Hrm.block(0, j * n, n, n) = Hri.block(0, j * n, n, n) * Ji;
      rep.judge(T + ".d2r_rminus", st, orc::err_relmax(toL(smooth::d2r_rminus<G>(as)), Hrm), tol, det);
      Mat Hsq = Ji.transpose() * Ji;
      for (int j = 0; j < n; ++j) Hsq += a(j) * Hrm.block(0, j * n, n, n);
      rep.judge(T + ".d2r_rminus_squarednorm", st, orc::err_relmax(toL(smooth::d2r_rminus_squarednorm<G>(as)), Hsq), tol, det);
    });
  }
}

// ------------------------------------------------------------------- generic helpers of C05
template<int N, int NV>
static void dmp_case(Report & rep, Rng & r, int n, int nv)
{
  using MA  = Eigen::Matrix<double, N, N>;
  using MdA = Eigen::Matrix<double, N, (N > 0 && NV > 0) ? N * NV : -1>;
  MA A(n, n), B(n, n);
  MdA dA(n, n * nv), dB(n, n * nv);
  const double sc = r.loguni(1e-2, 1e2);
  for (int i = 0; i < n; ++i)
    for (int j = 0; j < n; ++j) {
      A(i, j) = r.coin(0.1) ? 0 : sc * r.sym();
      B(i, j) = r.coin(0.1) ? 0 : r.sym();
    }
  for (int i = 0; i < n; ++i)
    for (int j = 0; j < n * nv; ++j) {
      dA(i, j) = r.coin(0.1) ? 0 : r.sym();
      dB(i, j) = r.coin(0.1) ? 0 : sc * r.sym();
    }
  // the arguments are Eigen expressions: plain matrices, row-major copies or block views of larger matrices
  const int form = r.below(3);
  Eigen::MatrixXd got;
  if (form == 0) {
    got = smooth::d_matrix_product(A, dA, B, dB);
  } else if (form == 1) {
    using RM = Eigen::Matrix<double, -1, -1, Eigen::RowMajor>;
    const RM Ar = A, Br = B, dAr = dA, dBr = dB;
    got = smooth::d_matrix_product(Ar, dAr, Br, dBr);
  } else {
    Eigen::MatrixXd bA = Eigen::MatrixXd::Constant(n + 2, n + 1, 9.5), bB = bA, bdA = Eigen::MatrixXd::Constant(n + 3, n * nv + 2, -4.5), bdB = bdA;
    bA.topLeftCorner(n, n)        = A;
    bB.topLeftCorner(n, n)        = B;
    bdA.topLeftCorner(n, n * nv)  = dA;
    bdB.topLeftCorner(n, n * nv)  = dB;
    got = smooth::d_matrix_product(bA.topLeftCorner(n, n), bdA.topLeftCorner(n, n * nv), bB.topLeftCorner(n, n), bdB.topLeftCorner(n, n * nv));
  }
  // definition: X(i,j) with dX(j, i*nv + k) = d X(i,j) / d x_k
  Mat ref(n, n * nv);
  const Mat Al = toL(A), Bl = toL(B), dAl = toL(dA), dBl = toL(dB);
  for (int i = 0; i < n; ++i)
    for (int j = 0; j < n; ++j)
      for (int k = 0; k < nv; ++k) {
        L s = 0;
        for (int m = 0; m < n; ++m) s += dAl(m, i * nv + k) * Bl(m, j) + Al(i, m) * dBl(j, m * nv + k);
        ref(j, i * nv + k) = s;
      }
  const std::string st = std::string(N > 0 ? "static" : "dynamic") + (form == 1 ? ",rowmajor" : (form == 2 ? ",blockview" : "")) + ",n=" + std::to_string(n) + ",nvar=" + std::to_string(nv);
  rep.note_input(Report::hash_vec(Eigen::Map<Eigen::VectorXd>(A.data(), A.size())), true);
  rep.judge("d_matrix_product", st, orc::err_relmax(toL(got), ref), 1e-12L, [&]() {
    return JObj().integer("n", n).integer("nvar", nv).raw("A", hexv(Eigen::Map<Eigen::VectorXd>(A.data(), A.size())))
      .raw("B", hexv(Eigen::Map<Eigen::VectorXd>(B.data(), B.size()))).done();
  });
}

template<int NO, int NY, int NX, bool SPARSE>
static void fog_case(Report & rep, Rng & r, int no, int ny, int nx)
{
  // f_i(y) = 1/2 y' Q_i y + q_i' y ; g_j(x) = 1/2 x' P_j x + p_j' x  (Q, P symmetric)
  std::vector<Mat> Q(size_t(no), Mat(ny, ny)), P(size_t(ny), Mat(nx, nx));
  Mat q(no, ny), p(ny, nx);
  auto rd = [&]() -> L { return r.coin(0.15) ? 0.0L : L(r.sym()); };
  for (auto & m : Q) {
    for (int a = 0; a < ny; ++a)
      for (int b = a; b < ny; ++b) m(a, b) = m(b, a) = L(double(rd()));
  }
  for (auto & m : P) {
    for (int a = 0; a < nx; ++a)
      for (int b = a; b < nx; ++b) m(a, b) = m(b, a) = L(double(rd()));
  }
  for (int i = 0; i < no; ++i)
    for (int j = 0; j < ny; ++j) q(i, j) = L(double(rd()));
  for (int i = 0; i < ny; ++i)
    for (int j = 0; j < nx; ++j) p(i, j) = L(double(rd()));
  Vec x(nx);
  for (int i = 0; i < nx; ++i) x(i) = L(double(r.sym() * 2));
  auto gfun = [&](const Vec & xx) {
    Vec y(ny);
    for (int j = 0; j < ny; ++j) y(j) = 0.5L * xx.dot(P[size_t(j)] * xx) + p.row(j).dot(xx);
    return y;
  };
  auto hfun = [&](const Vec & xx, int i) {
    const Vec y = gfun(xx);
    return 0.5L * y.dot(Q[size_t(i)] * y) + q.row(i).dot(y);
  };
  const Vec y = gfun(x);
  // inputs to the library in double (values are exactly representable products? no: y, Jf, Jg are
  // rounded to double; the reference below is built from the same rounded inputs by the chain rule
  // AND independently by exact finite differences of the quartic h at long-double precision)
  Eigen::Matrix<double, NO, NY> Jf(no, ny);
  Eigen::Matrix<double, NY, (NO > 0 && NY > 0) ? NO * NY : -1> Hf(ny, no * ny);
  Eigen::Matrix<double, NY, NX> Jg(ny, nx);
  Eigen::Matrix<double, NX, (NY > 0 && NX > 0) ? NY * NX : -1> Hg(nx, ny * nx);
  Mat JfL(no, ny), JgL(ny, nx);
  for (int i = 0; i < no; ++i) JfL.row(i) = (Q[size_t(i)] * y).transpose() + q.row(i);
  for (int j = 0; j < ny; ++j) JgL.row(j) = (P[size_t(j)] * x).transpose() + p.row(j);
  Jf = JfL.cast<double>();
  Jg = JgL.cast<double>();
  for (int i = 0; i < no; ++i) Hf.middleCols(i * ny, ny) = Q[size_t(i)].cast<double>();
  for (int j = 0; j < ny; ++j) Hg.middleCols(j * nx, nx) = P[size_t(j)].cast<double>();

  Mat got;
  int form = 0;
  if constexpr (SPARSE) {
    Eigen::SparseMatrix<double> Jfs = Jf.sparseView();
    if (r.coin(0.4)) {
      form = 1;
      const Eigen::Matrix<double, -1, -1, Eigen::RowMajor> HfR = Hf, HgR = Hg;
      const Eigen::MatrixXd JgD = Jg;
      got = toL(smooth::d2_fog(Jfs, HfR, JgD, HgR));
    } else {
      got = toL(smooth::d2_fog(Jfs, Hf, Jg, Hg));
    }
  } else {
    // the arguments are Eigen expressions: the result may not depend on their storage order or strides
    form = r.below(4);
    using RM = Eigen::Matrix<double, -1, -1, Eigen::RowMajor>;
    if (form == 0) {
      got = toL(smooth::d2_fog(Jf, Hf, Jg, Hg));
    } else if (form == 1) {
      const RM HfR = Hf, HgR = Hg;
      const Eigen::MatrixXd JfD = Jf, JgD = Jg;
      got = toL(smooth::d2_fog(JfD, HfR, JgD, HgR));
    } else if (form == 2) {
      Eigen::MatrixXd bigf = Eigen::MatrixXd::Constant(ny + 2, no * ny, 7.5), bigg = Eigen::MatrixXd::Constant(nx + 3, ny * nx, -3.25);
      bigf.topRows(ny) = Hf;
      bigg.topRows(nx) = Hg;
      const Eigen::MatrixXd JfD = Jf, JgD = Jg;
      got = toL(smooth::d2_fog(JfD, bigf.topRows(ny), JgD, bigg.topRows(nx)));
    } else {
      const RM JfR = Jf, JgR = Jg;
      const Eigen::MatrixXd HfD = Hf, HgD = Hg;
      got = toL(smooth::d2_fog(JfR, HfD, JgR, HgD));
    }
  }
  // reference 1: index definition from the same (rounded) inputs
  Mat ref(nx, no * nx);
  const Mat JfD = toL(Jf), JgD = toL(Jg), HfD = toL(Hf), HgD = toL(Hg);
  for (int i = 0; i < no; ++i)
    for (int a = 0; a < nx; ++a)
      for (int b = 0; b < nx; ++b) {
        L s = 0;
        for (int pp = 0; pp < ny; ++pp)
          for (int qq = 0; qq < ny; ++qq) s += JgD(pp, a) * HfD(pp, i * ny + qq) * JgD(qq, b);
        for (int j = 0; j < ny; ++j) s += JfD(i, j) * HgD(a, j * nx + b);
        ref(a, i * nx + b) = s;
      }
  // magnitude of the terms that make up the result (floor of the relative error: an entry that is zero or
  // cancels mathematically is compared on the scale of its terms, not of the stencil's rounding noise)
  L scale = 0;
  for (int i = 0; i < no; ++i) {
    scale = std::max(scale, fabsl(hfun(x, i)));
    for (int a = 0; a < nx; ++a)
      for (int b = 0; b < nx; ++b) {
        L s = 0;
        for (int pp = 0; pp < ny; ++pp)
          for (int qq = 0; qq < ny; ++qq) s += fabsl(JgD(pp, a) * HfD(pp, i * ny + qq) * JgD(qq, b));
        for (int j = 0; j < ny; ++j) s += fabsl(JfD(i, j) * HgD(a, j * nx + b));
        scale = std::max(scale, s);
      }
  }
  // reference 2: exact second differences of the quartic h_i (5-point stencil is exact up to degree 5)
  Mat ref2(nx, no * nx);
  const L hh = 0.125L;
  auto d2dir = [&](int i, const Vec & v) {
    return (-hfun(x + 2 * hh * v, i) + 16 * hfun(x + hh * v, i) - 30 * hfun(x, i) + 16 * hfun(x - hh * v, i) - hfun(x - 2 * hh * v, i)) / (12 * hh * hh);
  };
  for (int i = 0; i < no; ++i)
    for (int a = 0; a < nx; ++a)
      for (int b = 0; b < nx; ++b) {
        const Vec ea = orc::unit(nx, a), eb = orc::unit(nx, b);
        ref2(a, i * nx + b) = (a == b) ? d2dir(i, ea) : 0.5L * (d2dir(i, ea + eb) - d2dir(i, ea) - d2dir(i, eb));
      }
  static const char * forms[] = {"", ",rowmajorH", ",blockviewH", ",rowmajorJ"};
  const std::string st = std::string(NO > 0 ? "static" : "dynamic") + (SPARSE ? ",sparseJf" : ",denseJf") + forms[form] + ",no=" + std::to_string(no)
                       + ",ny=" + std::to_string(ny) + ",nx=" + std::to_string(nx);
  auto det = [&]() { return JObj().integer("no", no).integer("ny", ny).integer("nx", nx).raw("x", hexv(x)).done(); };
  rep.note_input(Report::hash_vec(x, Report::hash_vec(y)), true);
  {
    const L den = std::max({L(ref.cwiseAbs().maxCoeff()), scale, 1e-300L});
    rep.judge("d2_fog.definition", st, (got - ref).cwiseAbs().maxCoeff() / den, 1e-12L, det);
  }
  {
    const L den = std::max({L(ref2.cwiseAbs().maxCoeff()), scale, 1e-300L});
    rep.judge("d2_fog.end_to_end", st, (got - ref2).cwiseAbs().maxCoeff() / den, 1e-10L, det);
  }
}

[[maybe_unused]] static void run_c05_generic(Report & rep)
{
  rep.run_stream("d_matrix_product.dynamic", NQ(rep, 3000, 40000), [&](Rng & r, long) {
    dmp_case<-1, -1>(rep, r, 1 + r.below(6), 1 + r.below(6));
  });
  rep.run_stream("d_matrix_product.static", NQ(rep, 1500, 20000), [&](Rng & r, long i) {
    switch (i % 4) {
      case 0: dmp_case<3, 3>(rep, r, 3, 3); break;
      case 1: dmp_case<6, 6>(rep, r, 6, 6); break;
      case 2: dmp_case<2, 5>(rep, r, 2, 5); break;
      default: dmp_case<4, 1>(rep, r, 4, 1); break;
    }
  });
  rep.run_stream("d2_fog", NQ(rep, 2000, 30000), [&](Rng & r, long i) {
    switch (i % 6) {
      case 0: fog_case<-1, -1, -1, false>(rep, r, 1 + r.below(4), 1 + r.below(5), 1 + r.below(5)); break;
      case 1: fog_case<-1, -1, -1, true>(rep, r, 1 + r.below(4), 1 + r.below(5), 1 + r.below(5)); break;
      case 2: fog_case<3, 3, 3, false>(rep, r, 3, 3, 3); break;
      case 3: fog_case<1, 6, 6, false>(rep, r, 1, 6, 6); break;
      case 4: fog_case<2, 3, 4, true>(rep, r, 2, 3, 4); break;
      default: fog_case<-1, 3, -1, false>(rep, r, 1 + r.below(3), 3, 1 + r.below(5)); break;
    }
  });
}

// =================================================================== type sets
template<typename G>
void run_type(Report & rep)
{
  if constexpr (PROP == 1) run_c01<G>(rep);
  if constexpr (PROP == 2) run_c02<G>(rep);
  if constexpr (PROP == 3) run_c03<G>(rep);
  if constexpr (PROP == 4) run_c04<G>(rep);
  if constexpr (PROP == 5) run_c05<G>(rep);
}

template<typename S>
void run_base(Report & rep)
{
  run_type<smooth::SO2<S>>(rep);
  run_type<smooth::SO3<S>>(rep);
  run_type<smooth::SE2<S>>(rep);
  run_type<smooth::SE3<S>>(rep);
  run_type<smooth::C1<S>>(rep);
  run_type<smooth::Galilei<S>>(rep);
  run_type<smooth::SE_K_3<S, 1>>(rep);
  run_type<smooth::SE_K_3<S, 2>>(rep);
  run_type<smooth::SE_K_3<S, 3>>(rep);
}

int main(int argc, char ** argv)
{
  Args args = parse_args(argc, argv);
  Report rep(args);
  using namespace smooth;
  using V1d = Eigen::Matrix<double, 1, 1>;
  using V2d = Eigen::Vector2d;
  using V3d = Eigen::Vector3d;
  using V2f = Eigen::Vector2f;
#if TS == 0
  run_base<double>(rep);
#if PROP == 5
  run_c05_generic(rep);
#endif
#elif TS == 1
  run_base<float>(rep);
#elif TS == 2
  run_type<Bundle<SE2d, C1d, SO3d, V2d, SE3d>>(rep);
  run_type<Bundle<V3d, SO3d>>(rep);
  run_type<Bundle<SO3d, SO3d>>(rep);
  run_type<Bundle<SE2f, V2f, SO3f>>(rep);
#elif TS == 3
  run_type<Bundle<Bundle<SO3d, V2d>, SE2d>>(rep);
  run_type<Bundle<Galileid, V1d, SE_K_3<double, 2>>>(rep);
  run_type<Bundle<SO2d, V2d, C1d>>(rep);
  run_type<Bundle<SE3d>>(rep);
#elif TS == 4
  // thorough-tier extras: higher SE_K_3 orders, a six-member Bundle, deeper nesting
  run_type<SE_K_3<double, 4>>(rep);
  run_type<SE_K_3<float, 5>>(rep);
  run_type<Bundle<SO2d, SO3d, SE2d, SE3d, C1d, V3d>>(rep);
  run_type<Bundle<Bundle<Bundle<SO3d>, V1d>, SE3d>>(rep);
  run_type<Bundle<V2d, V3d, V1d>>(rep);
#endif
  rep.write();
  return 0;
}
