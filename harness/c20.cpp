// Monitor C20: polynomial bases, quadrature and interval search against their definitions.
#include <deque>
#include <span>
#include <algorithm>
#include <cmath>
#include <compare>

#include "harness/gen.hpp"

#include <smooth/polynomial/basis.hpp>
#include <smooth/polynomial/quadrature.hpp>

using namespace vh;
using smooth::PolynomialBasis;

static long NQ(const Report & rep, long quick, long thorough) { return rep.args.tier ? thorough : quick; }

static L binom(int n, int k)
{
  L r = 1;
  for (int i = 1; i <= k; ++i) r = r * (n - k + i) / i;
  return r;
}

// value of basis function i of coefficient matrix B at u: sum_r u^r B[r][i]
template<typename M>
static L basis_val(const M & B, int K, int i, L u)
{
  L s = 0, p = 1;
  for (int r = 0; r <= K; ++r) {
    s += p * L(B[size_t(r)][size_t(i)]);
    p *= u;
  }
  return s;
}

// uniform B-spline segment basis by Cox-de Boor: B_i(u) = N_{i,K}(K + u), knots at the integers
static L coxdeboor(int i, int k, L t)
{
  if (k == 0) return (t >= i && t < i + 1) ? 1.0L : 0.0L;
  return (t - i) / k * coxdeboor(i, k - 1, t) + (i + k + 1 - t) / k * coxdeboor(i + 1, k - 1, t);
}

static std::vector<L> eval_points(Rng & r, L lo, L hi, int n)
{
  std::vector<L> p = {lo, hi, (lo + hi) / 2};
  for (int i = 0; i < n; ++i) p.push_back(lo + (hi - lo) * L(r.uni()));
  p.push_back(lo + (hi - lo) * 1e-9L);
  p.push_back(hi - (hi - lo) * 1e-9L);
  return p;
}

template<size_t K>
static void bases_K(Report & rep)
{
  const std::string st = "K=" + std::to_string(K);
  const L tol          = 1e-9L;
  rep.run_stream("basis." + st, NQ(rep, 4, 40), [&](Rng & r, long idx) {
    auto det = [&]() { return JObj().integer("K", K).integer("batch", idx).done(); };
    rep.note_input(hash_bytes(&idx, sizeof idx, K), true);
    const auto Bb = smooth::polynomial_basis<PolynomialBasis::Bernstein, K>();
    const auto Bs = smooth::polynomial_basis<PolynomialBasis::Bspline, K>();
    const auto Cb = smooth::polynomial_cumulative_basis<PolynomialBasis::Bernstein, K>();
    const auto Cs = smooth::polynomial_cumulative_basis<PolynomialBasis::Bspline, K>();
    const auto Mo = smooth::polynomial_basis<PolynomialBasis::Monomial, K>();
    for (L u : eval_points(r, 0, 1, 50)) {
      L sb = 0, ss = 0, worst_b = 0, worst_s = 0, minb = 1, mins = 1, wcb = 0, wcs = 0, wmo = 0;
      for (int i = 0; i <= int(K); ++i) {
        const L vb = basis_val(Bb, K, i, u), vs = basis_val(Bs, K, i, u);
        sb += vb;
        ss += vs;
        minb    = std::min(minb, vb);
        mins    = std::min(mins, vs);
        worst_b = std::max(worst_b, fabsl(vb - binom(K, i) * powl(u, i) * powl(1 - u, int(K) - i)));
        // Cox-de Boor is right-open: evaluate the last point from the left
        const L tt = (u >= 1) ? K + 1 - 1e-18L : K + u;
        worst_s    = std::max(worst_s, fabsl(vs - coxdeboor(i, int(K), tt)));
        // cumulative = tail sums of the plain basis
        L tb = 0, ts = 0;
        for (int m = i; m <= int(K); ++m) {
          tb += basis_val(Bb, K, m, u);
          ts += basis_val(Bs, K, m, u);
        }
        wcb = std::max(wcb, fabsl(basis_val(Cb, K, i, u) - tb));
        wcs = std::max(wcs, fabsl(basis_val(Cs, K, i, u) - ts));
        wmo = std::max(wmo, fabsl(basis_val(Mo, K, i, u) - powl(u, i)));
      }
      rep.judge("bernstein.definition", st, worst_b, tol, det);
      rep.judge("bernstein.partition_of_unity", st, fabsl(sb - 1), tol, det);
      rep.judge("bernstein.nonnegative", st, minb < 0 ? -minb : 0, tol, det);
      rep.judge("bspline.coxdeboor", st, worst_s, tol, det);
      rep.judge("bspline.partition_of_unity", st, fabsl(ss - 1), tol, det);
      rep.judge("bspline.nonnegative", st, mins < 0 ? -mins : 0, tol, det);
      rep.judge("cumulative_bernstein.tail_sums", st, wcb, tol, det);
      rep.judge("cumulative_bspline.tail_sums", st, wcs, tol, det);
      rep.judge("cumulative.first_is_one", st, std::max(fabsl(basis_val(Cb, K, 0, u) - 1), fabsl(basis_val(Cs, K, 0, u) - 1)), tol, det);
      rep.judge("monomial.identity", st, wmo, 1e-15L, det);
    }
    {
      L w0 = 0, w1 = 0;
      for (int i = 1; i <= int(K); ++i) {
        w0 = std::max(w0, fabsl(basis_val(Cb, K, i, 0)));
        w1 = std::max(w1, fabsl(basis_val(Cb, K, i, 1) - 1));
      }
      rep.judge("cumulative_bernstein.zero_at_0", st, w0, tol, det);
      rep.judge("cumulative_bernstein.one_at_1", st, w1, tol, det);
    }
    // orthogonal families by their three-term recurrences
    const auto Le = smooth::polynomial_basis<PolynomialBasis::Legendre, K>();
    const auto T1 = smooth::polynomial_basis<PolynomialBasis::Chebyshev1st, K>();
    const auto T2 = smooth::polynomial_basis<PolynomialBasis::Chebyshev2nd, K>();
    const auto He = smooth::polynomial_basis<PolynomialBasis::Hermite, K>();
    const auto La = smooth::polynomial_basis<PolynomialBasis::Laguerre, K>();
    auto recur = [&](L x, int fam) {
      std::vector<L> p(K + 2);
      p[0] = 1;
      if (fam == 0) p[1] = x;            // Legendre
      if (fam == 1) p[1] = x;            // T
      if (fam == 2) p[1] = 2 * x;        // U
      if (fam == 3) p[1] = 2 * x;        // physicists' Hermite
      if (fam == 4) p[1] = 1 - x;        // Laguerre
      for (int n = 1; n < int(K); ++n) {
        if (fam == 0) p[size_t(n + 1)] = ((2 * n + 1) * x * p[size_t(n)] - n * p[size_t(n - 1)]) / (n + 1);
        if (fam == 1 || fam == 2) p[size_t(n + 1)] = 2 * x * p[size_t(n)] - p[size_t(n - 1)];
        if (fam == 3) p[size_t(n + 1)] = 2 * x * p[size_t(n)] - 2 * n * p[size_t(n - 1)];
        if (fam == 4) p[size_t(n + 1)] = ((2 * n + 1 - x) * p[size_t(n)] - n * p[size_t(n - 1)]) / (n + 1);
      }
      return p;
    };
    auto fam_check = [&](const char * name, const auto & B, int fam, L lo, L hi) {
      for (L x : eval_points(r, lo, hi, 40)) {
        const auto ref = recur(x, fam);
        L worst = 0, scale = 1;
        for (int i = 0; i <= int(K); ++i) {
          worst = std::max(worst, fabsl(basis_val(B, K, i, x) - ref[size_t(i)]));
          scale = std::max(scale, fabsl(ref[size_t(i)]));
        }
        rep.judge(std::string(name) + ".recurrence", st, worst / scale, tol, det);
      }
      // normalisation at the reference point
      const L x1 = (fam == 4) ? 0.0L : 1.0L;
      if (fam != 3) {
        L worst = 0;
        for (int i = 0; i <= int(K); ++i) worst = std::max(worst, fabsl(basis_val(B, K, i, x1) - (fam == 2 ? L(i + 1) : 1.0L)));
        rep.judge(std::string(name) + ".normalisation", st, worst, tol * (K + 1), det);
      }
    };
    fam_check("legendre", Le, 0, -1, 1);
    fam_check("chebyshev1", T1, 1, -1, 1);
    fam_check("chebyshev2", T2, 2, -1, 1);
    fam_check("hermite", He, 3, -2, 2);
    fam_check("laguerre", La, 4, 0, 4);
    for (L x : eval_points(r, -1, 1, 20)) {
      L worst = 0;
      for (int i = 0; i <= int(K); ++i) worst = std::max(worst, fabsl(basis_val(T1, K, i, x) - cosl(i * acosl(x))));
      rep.judge("chebyshev1.cos_n_acos", st, worst, tol, det);
    }
    // monomial derivatives
    for (L u : eval_points(r, -2, 2, 20)) {
      const double ud = double(u);
      L worst = 0, scale = 1;
      for (size_t p = 0; p <= K + 1; ++p) {
        const auto row = smooth::monomial_derivative<K>(ud, p);
        for (size_t k = 0; k <= K; ++k) {
          L ref = 0;
          if (k >= p) {
            ref = 1;
            for (size_t q = 0; q < p; ++q) ref *= L(k - q);
            ref *= powl(L(ud), int(k - p));
          }
          worst = std::max(worst, fabsl(L(row[0][k]) - ref));
          scale = std::max(scale, fabsl(ref));
        }
      }
      rep.judge("monomial_derivative", st, worst / scale, tol, det);
      const auto all = smooth::monomial_derivatives<K, 3>(ud);
      L w2 = 0;
      for (size_t p = 0; p <= 3; ++p) {
        const auto row = smooth::monomial_derivative<K>(ud, p);
        for (size_t k = 0; k <= K; ++k) w2 = std::max(w2, fabsl(L(all[p][k]) - L(row[0][k])));
      }
      rep.judge("monomial_derivatives.rows", st, w2, 0, det);
    }
    // monomial_integral: M(i,j) = int_0^1 (d^P u^i)(d^P u^j) du
    auto mi = [&]<size_t P>(std::integral_constant<size_t, P>) {
      const auto M = smooth::monomial_integral<K, P>();
      L worst = 0, scale = 1;
      for (size_t i = 0; i <= K; ++i)
        for (size_t j = 0; j <= K; ++j) {
          L ref = 0;
          if (i >= P && j >= P) {
            L ci = 1, cj = 1;
            for (size_t q = 0; q < P; ++q) {
              ci *= L(i - q);
              cj *= L(j - q);
            }
            ref = ci * cj / L(i + j - 2 * P + 1);
          }
          worst = std::max(worst, fabsl(L(M[i][j]) - ref));
          scale = std::max(scale, fabsl(ref));
        }
      rep.judge("monomial_integral.P" + std::to_string(P), st, worst / scale, tol, det);
    };
    // every differentiation order 0 .. K+1 (the products of falling factorials reach 10!^2 = 1.3e13 at K = P = 10)
    [&]<size_t... Ps>(std::index_sequence<Ps...>) { (mi(std::integral_constant<size_t, Ps>{}), ...); }(std::make_index_sequence<K + 2>{});
    // lagrange basis: p_i(t_j) = delta_ij
    {
      std::array<double, K + 1> ts;
      const int mode = r.below(3);
      for (size_t i = 0; i <= K; ++i) {
        if (mode == 0) ts[i] = -1 + 2.0 * double(i) / double(K ? K : 1);
        else if (mode == 1) ts[i] = -std::cos(3.14159265358979 * (double(i) + 0.5) / double(K + 1));
        else ts[i] = (double(i) + 0.8 * r.uni()) / double(K + 1);
      }
      const auto Lb = smooth::lagrange_basis<K>(ts);
      L worst = 0;
      for (size_t i = 0; i <= K; ++i)
        for (size_t j = 0; j <= K; ++j) worst = std::max(worst, fabsl(basis_val(Lb, K, int(i), L(ts[j])) - (i == j ? 1.0L : 0.0L)));
      // the monomial representation of degree-10 Lagrange polynomials is ill-conditioned; scale by the
      // size of the coefficients so the bound tests the map, not the conditioning of the monomial form
      L cmax = 1;
      for (size_t i = 0; i <= K; ++i)
        for (size_t j = 0; j <= K; ++j) cmax = std::max(cmax, fabsl(L(Lb[i][j])));
      rep.judge("lagrange.interpolates", st + (mode == 0 ? ",uniform" : (mode == 1 ? ",chebyshev" : ",random")), worst / cmax, tol, det);
    }
  });
}

template<size_t K>
static void lgr_K(Report & rep)
{
  const std::string st = "K=" + std::to_string(K);
  rep.run_stream("lgr." + st, 1, [&](Rng &, long) {
    const auto [xs, ws] = smooth::lgr_nodes<K>();
    auto det = [&]() { return JObj().integer("K", K).raw("nodes", jvec(Eigen::Map<const Eigen::Matrix<double, K, 1>>(xs.data()))).done(); };
    rep.note_input(K * 7919, true);
    L worst = 0;
    for (size_t m = 0; m + 2 <= 2 * K; ++m) {  // degrees 0 .. 2K-2
      L s = 0;
      for (size_t i = 0; i < K; ++i) s += L(ws[i]) * powl(L(xs[i]), int(m));
      const L ref = (m % 2 == 0) ? 2.0L / L(m + 1) : 0.0L;
      worst       = std::max(worst, fabsl(s - ref));
    }
    rep.judge("lgr.exactness", st, worst, 1e-9L, det);
    rep.judge("lgr.first_node", st, fabsl(L(xs[0]) + 1), 1e-9L, det);
    L order = 0, range = 0, wpos = 0;
    for (size_t i = 0; i < K; ++i) {
      if (i && !(xs[i] > xs[i - 1])) order = INFINITY;
      if (!(xs[i] >= -1 - 1e-9 && xs[i] < 1)) range = INFINITY;
      if (!(ws[i] > 0)) wpos = INFINITY;
    }
    rep.judge("lgr.increasing", st, order, 0, det);
    rep.judge("lgr.in_range", st, range, 0, det);
    rep.judge("lgr.positive_weights", st, wpos, 0, det);
    // nodes are the roots of P_{K-1} + P_K
    L wr = 0;
    for (size_t i = 0; i < K; ++i) {
      const L x = xs[i];
      std::vector<L> p(K + 2);
      p[0] = 1;
      p[1] = x;
      for (size_t n = 1; n < K; ++n) p[n + 1] = ((2 * n + 1) * x * p[n] - n * p[n - 1]) / (n + 1);
      wr = std::max(wr, fabsl(p[K - 1] + p[K]));
    }
    rep.judge("lgr.roots", st, wr, 1e-9L * K * K, det);
  });
}

// ------------------------------------------------------------------ integrate_absolute_polynomial
static L exact_abs_integral(L t0, L t1, L A, L B, L C)
{
  std::vector<L> cuts = {t0, t1};
  auto add            = [&](L x) {
    if (x > t0 && x < t1) cuts.push_back(x);
  };
  if (A == 0) {
    if (B != 0) add(-C / B);
  } else {
    const L disc = B * B - 4 * A * C;
    if (disc > 0) {
      const L q = -(B + (B >= 0 ? 1 : -1) * sqrtl(disc)) / 2;
      add(q / A);
      if (q != 0) add(C / q);
    }
  }
  std::sort(cuts.begin(), cuts.end());
  auto F = [&](L u) { return A * u * u * u / 3 + B * u * u / 2 + C * u; };
  // integrate on each piece with the antiderivative re-centred to avoid cancellation
  L s = 0;
  for (size_t i = 0; i + 1 < cuts.size(); ++i) {
    const L a = cuts[i], b = cuts[i + 1], h = b - a;
    // p(a + x) = A x^2 + (2 A a + B) x + p(a)
    const L pa = A * a * a + B * a + C;
    const L piece = A * h * h * h / 3 + (2 * A * a + B) * h * h / 2 + pa * h;
    s += fabsl(piece);
  }
  (void)F;
  return s;
}

static void abs_poly(Report & rep)
{
  rep.run_stream("integrate_absolute_polynomial", NQ(rep, 60000, 1500000), [&](Rng & r, long) {
    auto coef = [&]() -> double {
      const int k = r.below(10);
      if (k == 0) return 0.0;
      if (k < 3) return (r.coin() ? 1 : -1) * r.loguni(1e-12, 1e-6);
      return (r.coin() ? 1 : -1) * r.loguni(1e-6, 1e3);
    };
    double A = coef(), B = coef(), C = coef();
    double t0, t1;
    const int im = r.below(6);
    if (im == 0) {
      t0 = 0;
      t1 = 1;
    } else if (im == 1) {
      t0 = t1 = r.range(-10, 10);
    } else {
      t0 = r.range(-10, 10);
      t1 = r.range(-10, 10);
      if (t1 < t0) std::swap(t0, t1);
    }
    // place a root inside the interval in half of the cases
    if (r.coin() && t1 > t0 && A != 0) {
      const double rt = r.range(t0, t1);
      C               = -(A * rt * rt + B * rt);
    }
    const L ref = exact_abs_integral(t0, t1, A, B, C);
    const L got = smooth::integrate_absolute_polynomial(t0, t1, A, B, C);
    const double in[5] = {t0, t1, A, B, C};
    rep.note_input(hash_bytes(in, sizeof in), t1 > t0);
    auto det = [&]() { return JObj().num("t0", t0).num("t1", t1).num("A", A).num("B", B).num("C", C).num("lib", got).num("exact", ref).done(); };
    const std::string st = std::string("A:") + decade(A) + ",B:" + decade(B);
    rep.judge("integrate_absolute_polynomial", st, fabsl(got - ref) / std::max<L>(1, ref), 1e-9L, det);
  });
}

// ------------------------------------------------------------------ binary_interval_search
struct Opaque
{
  int v;
};
static std::weak_ordering opaque_cmp(const Opaque & a, const Opaque & b) { return a.v <=> b.v; }

template<typename Tv, typename MakeT>
static void search_case(Report & rep, const std::string & T, const std::vector<Tv> & rg, const Tv & t, MakeT as_int, const std::function<std::string()> & det)
{
  const long n = long(rg.size());
  long idx;
  if constexpr (std::is_same_v<Tv, Opaque>) {
    idx = long(smooth::utils::binary_interval_search(rg, t, opaque_cmp) - rg.cbegin());
  } else {
    idx = long(smooth::utils::binary_interval_search(rg, t) - rg.cbegin());
  }
  auto v = [&](long i) { return as_int(rg[size_t(i)]); };
  const auto tv = as_int(t);
  bool ok;
  std::string which;
  if (n == 0) {
    which = "case1_empty";
    ok    = idx == n;
  } else if (tv < v(0)) {
    which = "case2_below";
    ok    = idx == n;
  } else if (tv >= v(n - 1)) {
    which = "case3_above";
    ok    = idx == n - 1;
  } else {
    which = "case4_interior";
    ok    = idx >= 0 && idx + 1 < n && v(idx) <= tv && tv < v(idx + 1);
  }
  rep.require("binary_interval_search." + T, which, ok, det);
}

// range and query of different types / other random-access containers (values are small integers, exact in every type)
template<typename Range, typename Tq>
static void search_case_mixed(Report & rep, const std::string & T, const Range & rg, const Tq & t, const std::function<std::string()> & det)
{
  const long n   = long(std::ranges::size(rg));
  const long idx = long(smooth::utils::binary_interval_search(rg, t) - std::ranges::cbegin(rg));
  auto v         = [&](long i) { return double(*(std::ranges::cbegin(rg) + i)); };
  const double tv = double(t);
  bool ok;
  std::string which;
  if (n == 0) {
    which = "case1_empty";
    ok    = idx == n;
  } else if (tv < v(0)) {
    which = "case2_below";
    ok    = idx == n;
  } else if (tv >= v(n - 1)) {
    which = "case3_above";
    ok    = idx == n - 1;
  } else {
    which = "case4_interior";
    ok    = idx >= 0 && idx + 1 < n && v(idx) <= tv && tv < v(idx + 1);
  }
  rep.require("binary_interval_search." + T, which, ok, det);
}

static void search(Report & rep)
{
  // exhaustive: all sorted ranges of length 0..8 over a 5-letter alphabet x 11 queries
  rep.run_stream("search.exhaustive", 9, [&](Rng &, long len) {
    std::vector<int> cur(size_t(len), 0);
    const int alpha[5] = {0, 2, 4, 6, 8};
    long nranges = 0;
    std::function<void(size_t, int)> rec = [&](size_t pos, int minletter) {
      if (pos == size_t(len)) {
        ++nranges;
        std::vector<double> rd;
        std::vector<int> ri;
        std::vector<Opaque> ro;
        for (int c : cur) {
          rd.push_back(alpha[c]);
          ri.push_back(alpha[c]);
          ro.push_back(Opaque{alpha[c]});
        }
        for (int q = -1; q <= 9; ++q) {
          auto det = [&]() { return JObj().raw("range", jvec(Eigen::Map<const Eigen::VectorXd>(rd.data(), long(rd.size())))).integer("t", q).done(); };
          rep.note_input(hash_bytes(ri.data(), ri.size() * sizeof(int), uint64_t(q + 100 * len)), true);
          search_case<double>(rep, "double", rd, double(q), [](double x) { return x; }, det);
          search_case<int>(rep, "int", ri, q, [](int x) { return x; }, det);
          search_case<Opaque>(rep, "opaque", ro, Opaque{q}, [](const Opaque & o) { return o.v; }, det);
          // non-integer query against doubles
          search_case<double>(rep, "double", rd, q + 0.5, [](double x) { return x; }, det);
          // query type different from the element type; other random-access ranges
          {
            const std::vector<float> rf(rd.begin(), rd.end());
            const std::deque<double> dq(rd.begin(), rd.end());
            search_case_mixed(rep, "float_range.double_query", rf, q + 0.5, det);
            search_case_mixed(rep, "float_range.double_query", rf, double(q), det);
            search_case_mixed(rep, "double_range.int_query", rd, q, det);
            search_case_mixed(rep, "int_range.double_query", ri, q + 0.5, det);
            search_case_mixed(rep, "int_range.double_query", ri, double(q), det);
            search_case_mixed(rep, "deque", dq, q + 0.5, det);
            search_case_mixed(rep, "deque", dq, double(q), det);
            search_case_mixed(rep, "span", std::span<const double>(rd.data(), rd.size()), double(q), det);
          }
        }
        return;
      }
      for (int c = minletter; c < 5; ++c) {
        cur[pos] = c;
        rec(pos + 1, c);
      }
    };
    rec(0, 0);
    rep.count("C20.search.exhaustive_ranges", nranges);
  });
  // random long ranges, heavy repeats and clustered values (hostile to the interpolation pivot)
  rep.run_stream("search.random", NQ(rep, 3000, 60000), [&](Rng & r, long) {
    const int n = 1 + r.below(r.coin(0.1) ? 10000 : 200);
    std::vector<double> rd(static_cast<size_t>(n), 0.0);
    const int mode = r.below(4);
    double x = r.range(-100, 100);
    for (int i = 0; i < n; ++i) {
      if (mode == 0) x += r.uni();                                  // uniform-ish
      else if (mode == 1) x += r.coin(0.8) ? 0.0 : r.uni();         // heavy repeats
      else if (mode == 2) x += r.coin(0.02) ? 1e6 * r.uni() : 1e-9 * r.uni();  // clusters with huge gaps
      else x += std::exp(r.range(-30, 5));                          // geometric
      rd[size_t(i)] = x;
    }
    for (int q = 0; q < 8; ++q) {
      double t;
      const int k = r.below(6);
      if (k == 0) t = rd[size_t(r.below(n))];
      else if (k == 1) t = std::nextafter(rd[size_t(r.below(n))], r.coin() ? 1e300 : -1e300);
      else if (k == 2) t = rd.front() - r.uni();
      else if (k == 3) t = rd.back() + r.uni();
      else t = r.range(rd.front(), rd.back());
      auto det = [&]() { return JObj().integer("n", n).integer("mode", mode).num("t", t).num("front", rd.front()).num("back", rd.back()).done(); };
      rep.note_input(hash_bytes(&t, sizeof t, hash_bytes(rd.data(), std::min<size_t>(rd.size(), 16) * 8)), true);
      search_case<double>(rep, "double.random", rd, t, [](double v) { return v; }, det);
    }
    // integer ranges with large magnitudes (differences stay inside the type)
    std::vector<long> rl(static_cast<size_t>(n), 0L);
    long y = long(r.range(-1e15, 1e15));
    for (int i = 0; i < n; ++i) {
      y += long(r.coin(0.5) ? 0 : r.loguni(1, 1e12));
      rl[size_t(i)] = y;
    }
    for (int q = 0; q < 4; ++q) {
      const long t = r.coin() ? rl[size_t(r.below(n))] : rl.front() + long(r.uni() * double(rl.back() - rl.front()));
      auto det     = [&]() { return JObj().integer("n", n).integer("t", t).integer("front", rl.front()).integer("back", rl.back()).done(); };
      search_case<long>(rep, "long.random", rl, t, [](long v) { return v; }, det);
    }
  });
}

int main(int argc, char ** argv)
{
  Args args = parse_args(argc, argv);
  Report rep(args);
  [&]<size_t... K>(std::index_sequence<K...>) { (bases_K<K>(rep), ...); }(std::make_index_sequence<11>{});
  [&]<size_t... K>(std::index_sequence<K...>) { (lgr_K<K + 1>(rep), ...); }(std::make_index_sequence<16>{});
  abs_poly(rep);
  search(rep);
  rep.write();
  return 0;
}
