// Monitor C06: Bundle is the direct product of its parts (as addressed by part<i>()), vectors and
// scalars are translation groups. Reference = the library's own per-part results arranged with the
// oracle's (independent) prefix sums; everything outside the blocks must be exactly zero.
#include <smooth/derivatives.hpp>
#include <smooth/manifolds.hpp>

#include "harness/gen.hpp"

using namespace vh;

#ifndef TS
#define TS 0
#endif

static long NQ(const Report & rep, long quick, long thorough) { return rep.args.tier ? thorough : quick; }

// error in units of eps relative to the larger magnitude (0 = bit-equal)
template<typename S>
static L ulp_err(const Mat & x, const Mat & y, Report & rep)
{
  if (x.rows() != y.rows() || x.cols() != y.cols()) return INFINITY;
  L worst      = 0;
  bool biteq   = true;
  const L epsS = std::numeric_limits<S>::epsilon();
  for (int i = 0; i < x.rows(); ++i)
    for (int j = 0; j < x.cols(); ++j) {
      const L a = x(i, j), b = y(i, j);
      if (a == b) continue;
      biteq = false;
      if (!(a == a) || !(b == b)) return INFINITY;
      const L m = std::max(fabsl(a), fabsl(b));
      const L e = fabsl(a - b) / (epsS * std::max<L>(m, std::numeric_limits<S>::min()));
      if (e > worst) worst = e;
    }
  rep.count(biteq ? "C06.biteq_comparisons" : "C06.non_biteq_comparisons");
  return worst;
}

template<typename B>
struct BundleMon
{
  using S                   = typename B::Scalar;
  static constexpr size_t N = B::BundleSize;
  using Tangent             = Eigen::Matrix<S, B::Dof, 1>;
  template<size_t I>
  using Part = typename B::template PartType<I>;

  Report & rep;
  LayoutP lp;
  const Layout & l;
  std::string T;
  static constexpr L UTOL = 2;  // ulps

  explicit BundleMon(Report & r) : rep(r), lp(TI<B>::layout()), l(*lp), T(TI<B>::name()) {}

  template<typename P>
  static Mat coeffsL(const P & p)
  {
    if constexpr (requires { p.coeffs(); }) {
      return toL(p.coeffs());
    } else {
      return toL(p);
    }
  }

  void run()
  {
    // static bookkeeping: sums of the parts
    rep.run_stream(T + ".static", 1, [&](Rng &, long) {
      auto det = [&]() { return JObj().str("type", T).done(); };
      rep.require(T + ".Dof_sum", "static", B::Dof == l.dof, det);
      rep.require(T + ".RepSize_sum", "static", B::RepSize == l.rep, det);
      rep.require(T + ".Dim_sum", "static", B::Dim == l.dim, det);
      rep.require(T + ".IsCommutative", "static", B::IsCommutative == l.commutative, det);
      B g = B::Identity();
      rep.require(T + ".dof()", "static", g.dof() == l.dof && smooth::dof(g) == l.dof, det);
    });

    rep.run_stream(T + ".product", NQ(rep, 600, 20000), [&](Rng & r, long) {
      const int am = r.below(8), tm = r.below(4);
      static const int amodes[] = {R_ZERO, R_TINY, R_BAND, R_GENERIC, R_GENERIC, R_NEARPI, R_EXACTPI, R_INV_NEARPI};
      const Vec c1 = gen_coeffs<S>(l, r, amodes[am], tm), c2 = gen_coeffs<S>(l, r, amodes[r.below(8)], r.below(4));
      static const int rmodes[] = {R_ZERO, R_TINY, R_BAND, R_BAND, R_GENERIC, R_GENERIC, R_INV_NEARPI, R_MODERATE};
      const Vec a  = gen_tangent<S>(l, r, rmodes[r.below(8)], r.below(4));
      const B g1 = make_elem<B>(c1), g2 = make_elem<B>(c2);
      const Tangent as = a.template cast<S>();
      const TInfo ti   = classify_tangent(l, a);
      const std::string st = "ang:" + rot_label(element_angle(l, c1)) + "," + ti.label();
      auto det = [&]() { return JObj().str("type", T).raw("g1", hexv(c1)).raw("g2", hexv(c2)).raw("a", hexv(a)).done(); };
      rep.note_input(Report::hash_vec(a, Report::hash_vec(c1)), a.norm() > 0);

      // bundle-level results, computed once
      const B g12 = g1 * g2, gi = g1.inverse(), ge = B::exp(as), gp = g1 + as;
      const Mat lg = toL(g1.log()), rm = toL((g1 - g2).eval());
      const Mat Adb = toL(g1.Ad()), adb = toL(B::ad(as)), Jr = toL(B::dr_exp(as)), Jl = toL(B::dl_exp(as));
      const bool inv_ok = ti.rotmax <= PI_L - 1e-3L;
      Mat Jri, Jli;
      if (inv_ok) {
        Jri = toL(B::dr_expinv(as));
        Jli = toL(B::dl_expinv(as));
      }
      const Mat Mb = toL(g1.matrix()), Hb = toL(B::hat(as));
      Mat H2, H2i, H2l, H2li;
      if constexpr (TI<B>::has_hessian) {
        H2  = toL(B::d2r_exp(as));
        H2l = toL(B::d2l_exp(as));
        if (inv_ok) {
          H2i  = toL(B::d2r_expinv(as));
          H2li = toL(B::d2l_expinv(as));
        }
      }
      const auto gf = g1.template cast<float>();
      const auto gd = g1.template cast<double>();
      const B gid   = B::Identity();

      // masks of entries covered by some block
      const int n = l.dof, dm = l.dim;
      Mat cov_nn = Mat::Zero(n, n), cov_dd = Mat::Zero(dm, dm), cov_h = Mat::Zero(n, n * n);

      auto per_part = [&]<size_t I>(std::integral_constant<size_t, I>) {
        using P          = Part<I>;
        const Layout & q = *l.parts[I];
        const int ro = l.part_rep[I], o = l.part_dof[I], mo = l.part_dim[I], np = q.dof, nr = q.rep, nd = q.dim;
        const std::string sfx = ".part" + std::to_string(I);
        const P p1 = g1.template part<I>(), p2 = g2.template part<I>();
        const Eigen::Matrix<S, smooth::Dof<P>, 1> ai = as.template segment<smooth::Dof<P>>(o);
        auto chk = [&](const char * op, const Mat & got, const Mat & ref) {
          rep.judge(T + "." + op + sfx, st, ulp_err<S>(got, ref, rep), UTOL, det);
        };
        chk("part_range", coeffsL(p1), c1.segment(ro, nr));
        chk("compose", coeffsL(P(g12.template part<I>())), coeffsL(smooth::composition(p1, p2)));
        chk("inverse", coeffsL(P(gi.template part<I>())), coeffsL(smooth::inverse(p1)));
        chk("log", lg.block(o, 0, np, 1), toL(smooth::log(p1)));
        chk("exp", coeffsL(P(ge.template part<I>())), coeffsL(smooth::exp<P>(ai)));
        chk("rplus", coeffsL(P(gp.template part<I>())), coeffsL(smooth::rplus(p1, ai)));
        chk("rminus", rm.block(o, 0, np, 1), toL(smooth::rminus(p1, p2)));
        chk("Ad", Adb.block(o, o, np, np), toL(smooth::Ad(p1)));
        chk("ad", adb.block(o, o, np, np), toL(smooth::ad<P>(ai)));
        chk("dr_exp", Jr.block(o, o, np, np), toL(smooth::dr_exp<P>(ai)));
        chk("dl_exp", Jl.block(o, o, np, np), toL(smooth::dl_exp<P>(ai)));
        if (inv_ok) {
          chk("dr_expinv", Jri.block(o, o, np, np), toL(smooth::dr_expinv<P>(ai)));
          chk("dl_expinv", Jli.block(o, o, np, np), toL(smooth::dl_expinv<P>(ai)));
        }
        cov_nn.block(o, o, np, np).setOnes();
        if constexpr (!smooth::MatrixType<P>) {
          chk("matrix", Mb.block(mo, mo, nd, nd), toL(p1.matrix()));
          chk("hat", Hb.block(mo, mo, nd, nd), toL(P::hat(ai)));
        } else {
          chk("matrix", Mb.block(mo, mo, nd, nd), q.matrix(coeffsL(p1)));
          chk("hat", Hb.block(mo, mo, nd, nd), q.hat(toL(ai)));
        }
        cov_dd.block(mo, mo, nd, nd).setOnes();
        chk("identity", coeffsL(P(gid.template part<I>())), coeffsL(smooth::Identity<P>()));
        {
          // cast<S2>() converts each coefficient of the part
          using Pf = smooth::CastT<float, P>;
          using Pd = smooth::CastT<double, P>;
          chk("cast_float", coeffsL(Pf(gf.template part<I>())), coeffsL(smooth::cast<float>(p1)));
          chk("cast_double", coeffsL(Pd(gd.template part<I>())), coeffsL(smooth::cast<double>(p1)));
        }
        if constexpr (TI<B>::has_hessian) {
          auto arrange = [&](const Mat & Hp) {
            Mat blk = Mat::Zero(n, n * n);
            for (int li = 0; li < np; ++li)
              for (int lj = 0; lj < np; ++lj)
                for (int lk = 0; lk < np; ++lk) blk(o + lj, (o + li) * n + (o + lk)) = Hp(lj, li * np + lk);
            return blk;
          };
          auto chkH = [&](const char * op, const Mat & Hbun, const Mat & Hp) {
            // compare only entries of this part's index range
            Mat got = Mat::Zero(n, n * n), ref = arrange(Hp);
            for (int li = 0; li < np; ++li)
              for (int lj = 0; lj < np; ++lj)
                for (int lk = 0; lk < np; ++lk) {
                  got(o + lj, (o + li) * n + (o + lk)) = Hbun(o + lj, (o + li) * n + (o + lk));
                  cov_h(o + lj, (o + li) * n + (o + lk)) = 1;
                }
            chk(op, got, ref);
          };
          chkH("d2r_exp", H2, toL(smooth::d2r_exp<P>(ai)));
          chkH("d2l_exp", H2l, toL(smooth::d2l_exp<P>(ai)));
          if (inv_ok) {
            chkH("d2r_expinv", H2i, toL(smooth::d2r_expinv<P>(ai)));
            chkH("d2l_expinv", H2li, toL(smooth::d2l_expinv<P>(ai)));
          }
        }
      };
      [&]<size_t... I>(std::index_sequence<I...>) { (per_part(std::integral_constant<size_t, I>{}), ...); }(std::make_index_sequence<N>{});

      // everything outside the blocks is exactly zero
      auto outside = [&](const char * op, const Mat & X, const Mat & cov) {
        L worst = 0;
        for (int i = 0; i < X.rows(); ++i)
          for (int j = 0; j < X.cols(); ++j)
            if (cov(i, j) == 0 && !(X(i, j) == 0)) worst = INFINITY;
        rep.judge(T + "." + op + ".outside_zero", st, worst, 0, det);
      };
      outside("Ad", Adb, cov_nn);
      outside("ad", adb, cov_nn);
      outside("dr_exp", Jr, cov_nn);
      outside("dl_exp", Jl, cov_nn);
      if (inv_ok) {
        outside("dr_expinv", Jri, cov_nn);
        outside("dl_expinv", Jli, cov_nn);
      }
      outside("matrix", Mb, cov_dd);
      outside("hat", Hb, cov_dd);
      if constexpr (TI<B>::has_hessian) {
        outside("d2r_exp", H2, cov_h);
        outside("d2l_exp", H2l, cov_h);
        if (inv_ok) {
          outside("d2r_expinv", H2i, cov_h);
          outside("d2l_expinv", H2li, cov_h);
        }
      }
      // construction from parts reproduces the element; vee inverts hat
      [&]<size_t... I>(std::index_sequence<I...>) {
        const B rebuilt(Part<I>(g1.template part<I>())...);
        rep.judge(T + ".construct_from_parts", st, orc::maxabs(toL(rebuilt.coeffs()) - c1), 0, det);
      }(std::make_index_sequence<N>{});
      rep.judge(T + ".vee_hat", st, orc::maxabs(toL(B::vee(B::hat(as))) - a), 0, det);
      // free-function interface is the same operation
      rep.judge(T + ".free_dr_exp", st, orc::maxabs(toL(smooth::dr_exp<B>(as)) - Jr), 0, det);
      rep.judge(T + ".free_compose", st, orc::maxabs(toL(smooth::composition(g1, g2).coeffs()) - toL(g12.coeffs())), 0, det);
      // part<i>() through Map and const Map views
      {
        Eigen::Matrix<S, B::RepSize, 1> buf = g1.coeffs();
        smooth::Map<B> mv(buf.data());
        smooth::Map<const B> cv(buf.data());
        [&]<size_t... I>(std::index_sequence<I...>) {
          L w = 0;
          ((w = std::max(w, orc::maxabs(coeffsL(Part<I>(mv.template part<I>())) - coeffsL(Part<I>(g1.template part<I>()))))), ...);
          ((w = std::max(w, orc::maxabs(coeffsL(Part<I>(cv.template part<I>())) - coeffsL(Part<I>(g1.template part<I>()))))), ...);
          rep.judge(T + ".part_via_maps", st, w, 0, det);
        }(std::make_index_sequence<N>{});
      }
    });
  }
};

// ------------------------------------------------------------------ vectors and scalars
template<typename V>
static void vector_group(Report & rep, const std::string & T, int nmax_dynamic)
{
  using S = typename V::Scalar;
  rep.run_stream(T + ".translation", NQ(rep, 1500, 30000), [&](Rng & r, long) {
    const int n = (V::SizeAtCompileTime == Eigen::Dynamic) ? r.below(nmax_dynamic + 1) : int(V::SizeAtCompileTime);
    V x(n), y(n), a(n);
    const int m1 = r.below(4), m2 = r.below(4), m3 = r.below(4);
    for (int i = 0; i < n; ++i) {
      x(i) = S(rand_tr(r, m1));
      y(i) = S(rand_tr(r, m2));
      a(i) = S(rand_tr(r, m3));
    }
    const std::string st = "n=" + std::to_string(n);
    auto det = [&]() { return JObj().str("type", T).integer("n", n).raw("x", hexv(toL(x))).raw("y", hexv(toL(y))).raw("a", hexv(toL(a))).done(); };
    rep.note_input(Report::hash_vec(toL(x), Report::hash_vec(toL(a), uint64_t(n))), n > 0);
    const Mat I = orc::eye(n), Z = Mat::Zero(n, n);
    auto ex = [&](const char * op, const Mat & got, const Mat & ref) {
      const bool ok = got.rows() == ref.rows() && got.cols() == ref.cols() && (got.size() == 0 || orc::maxabs(got - ref) == 0);
      rep.require(T + "." + op, st, ok, det);
    };
    ex("composition", toL(smooth::composition(x, y)), toL((x + y).eval()));
    ex("inverse", toL(smooth::inverse(x)), toL((-x).eval()));
    ex("log", toL(smooth::log(x)), toL(x));
    ex("exp", toL(smooth::exp<V>(a)), toL(a));
    ex("Ad", toL(smooth::Ad(x)), I);
    ex("ad", toL(smooth::ad<V>(a)), Z);
    ex("dr_exp", toL(smooth::dr_exp<V>(a)), I);
    ex("dr_expinv", toL(smooth::dr_expinv<V>(a)), I);
    ex("dl_exp", toL(smooth::dl_exp<V>(a)), I);
    ex("dl_expinv", toL(smooth::dl_expinv<V>(a)), I);
    ex("d2r_exp", toL(smooth::d2r_exp<V>(a)), Mat::Zero(n, n * n));
    ex("d2r_expinv", toL(smooth::d2r_expinv<V>(a)), Mat::Zero(n, n * n));
    ex("d2l_exp", toL(smooth::d2l_exp<V>(a)), Mat::Zero(n, n * n));
    ex("d2l_expinv", toL(smooth::d2l_expinv<V>(a)), Mat::Zero(n, n * n));
    ex("Identity", toL(smooth::Identity<V>(n)), Mat::Zero(n, 1));
    ex("rplus", toL(smooth::rplus(x, a)), toL((x + a).eval()));
    ex("rminus", toL(smooth::rminus(x, y)), toL((x - y).eval()));
    ex("lplus", toL(smooth::lplus(x, a)), toL((a + x).eval()));
    ex("lminus", toL(smooth::lminus(x, y)), toL((x - y).eval()));
    ex("cast_double", toL(smooth::cast<double>(x)), toL(x));
    ex("cast_float", toL(smooth::cast<float>(x)), toL(x.template cast<float>().eval()));
    ex("dr_rminus", toL(smooth::dr_rminus<V>(a)), I);
    ex("d2r_rminus", toL(smooth::d2r_rminus<V>(a)), Mat::Zero(n, n * n));
    ex("dr_rminus_squarednorm", toL(smooth::dr_rminus_squarednorm<V>(a)), toL(a.transpose().eval()));
    ex("d2r_rminus_squarednorm", toL(smooth::d2r_rminus_squarednorm<V>(a)), I);
    rep.require(T + ".dof", st, smooth::dof(x) == n, det);
    rep.require(T + ".IsCommutative", st, smooth::IsCommutative<V>, det);
    rep.require(T + ".isApprox", st, n == 0 || smooth::isApprox(x, x), det);
  });
}

template<typename S>
static void scalar_group(Report & rep, const std::string & T)
{
  rep.run_stream(T + ".translation", NQ(rep, 1500, 30000), [&](Rng & r, long) {
    const S x = S(rand_tr(r, r.below(4))), y = S(rand_tr(r, r.below(4)));
    Eigen::Matrix<S, 1, 1> a;
    a(0) = S(rand_tr(r, r.below(4)));
    auto det = [&]() { return JObj().str("type", T).num("x", x).num("y", y).num("a", a(0)).done(); };
    const double xd[3] = {double(x), double(y), double(a(0))};
    rep.note_input(hash_bytes(xd, sizeof xd), x != 0 || a(0) != 0);
    const std::string st = "scalar";
    auto ex = [&](const char * op, L got, L ref) { rep.require(T + "." + op, st, got == ref, det); };
    ex("composition", smooth::composition(x, y), L(S(x + y)));
    ex("inverse", smooth::inverse(x), -L(x));
    ex("log", smooth::log(x)(0), x);
    ex("exp", smooth::exp<S>(a), a(0));
    ex("Ad", smooth::Ad(x)(0, 0), 1);
    ex("ad", smooth::ad<S>(a)(0, 0), 0);
    ex("dr_exp", smooth::dr_exp<S>(a)(0, 0), 1);
    ex("dr_expinv", smooth::dr_expinv<S>(a)(0, 0), 1);
    ex("dl_exp", smooth::dl_exp<S>(a)(0, 0), 1);
    ex("d2r_exp", smooth::d2r_exp<S>(a)(0, 0), 0);
    ex("d2r_expinv", smooth::d2r_expinv<S>(a)(0, 0), 0);
    ex("Identity", smooth::Identity<S>(), 0);
    ex("rplus", smooth::rplus(x, a), L(S(x + a(0))));
    ex("rminus", smooth::rminus(x, y)(0), L(S(x - y)));
    ex("cast_float", smooth::cast<float>(x), L(float(x)));
    ex("cast_double", smooth::cast<double>(x), L(double(x)));
    rep.require(T + ".dof", st, smooth::dof(x) == 1 && smooth::Dof<S> == 1, det);
  });
}

int main(int argc, char ** argv)
{
  Args args = parse_args(argc, argv);
  Report rep(args);
  using namespace smooth;
  using V1d = Eigen::Matrix<double, 1, 1>;
  using V2d = Eigen::Vector2d;
  using V3d = Eigen::Vector3d;
  using V2f = Eigen::Vector2f;
#if TS == 0
  BundleMon<Bundle<SE2d, C1d, SO3d, V2d, SE3d>>(rep).run();
  BundleMon<Bundle<V3d, SO3d>>(rep).run();
  BundleMon<Bundle<SO3d, SO3d, SO2d>>(rep).run();
  BundleMon<Bundle<SE3d>>(rep).run();
#elif TS == 1
  BundleMon<Bundle<Bundle<SO3d, V2d>, SE2d, V1d>>(rep).run();
  BundleMon<Bundle<Galileid, V1d, SE_K_3<double, 2>>>(rep).run();
  BundleMon<Bundle<SO2d, V2d, C1d>>(rep).run();
  BundleMon<Bundle<SE2f, V2f, SO3f>>(rep).run();
#elif TS == 2
  vector_group<Eigen::Matrix<double, 1, 1>>(rep, "R1d", 0);
  vector_group<Eigen::Vector2d>(rep, "R2d", 0);
  vector_group<Eigen::Vector3d>(rep, "R3d", 0);
  vector_group<Eigen::Matrix<double, 6, 1>>(rep, "R6d", 0);
  vector_group<Eigen::Vector3f>(rep, "R3f", 0);
  vector_group<Eigen::VectorXd>(rep, "RXd", 12);
  vector_group<Eigen::VectorXf>(rep, "RXf", 12);
  scalar_group<double>(rep, "double");
  scalar_group<float>(rep, "float");
#elif TS == 3
  // thorough-only extra compositions
  BundleMon<Bundle<SE3f, Galileif>>(rep).run();
  BundleMon<Bundle<V1d, V2d, V3d>>(rep).run();
  BundleMon<Bundle<SO3d, Bundle<SE2d, Bundle<SO2d, V1d>>>>(rep).run();
  BundleMon<Bundle<SE_K_3<double, 3>, C1d, SE_K_3<double, 1>>>(rep).run();
#endif
  rep.write();
  return 0;
}
