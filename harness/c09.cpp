// Monitor C09: minimize never makes things worse, terminates, reports its status truthfully and
// finds the minimiser of well-conditioned problems. History monitor over the callback events.
#include <Eigen/Sparse>

#include "harness/gen.hpp"

#include <smooth/optim.hpp>

using namespace vh;
using smooth::MinimizeOptions;
using smooth::SolveResult;
using DT = smooth::diff::Type;

static long NQ(const Report & rep, long quick, long thorough) { return rep.args.tier ? thorough : quick; }

// ------------------------------------------------------------------ flattening of argument tuples
template<typename T>
static void flat_one(const T & t, std::vector<double> & out)
{
  if constexpr (std::is_floating_point_v<T>) {
    out.push_back(t);
  } else if constexpr (requires { t.coeffs(); }) {
    for (int i = 0; i < t.coeffs().size(); ++i) out.push_back(t.coeffs()(i));
  } else {
    for (int i = 0; i < t.size(); ++i) out.push_back(t(i));
  }
}
template<typename... X>
static std::vector<double> flat(const X &... x)
{
  std::vector<double> out;
  (flat_one(x, out), ...);
  return out;
}

struct Event
{
  std::vector<double> args;
  double cost;  // |f| at the iterate, evaluated by the monitor with the user's residual
};

struct Outcome
{
  std::vector<Event> ev;
  SolveResult res;
  std::vector<double> final_args;
};

struct Opt
{
  std::size_t max_iter;
  double ptol, ftol;
  int strat;  // 0 ceres fresh, 1 disney fresh, 2 ceres reused, 3 disney reused
  std::string label() const
  {
    static const char * s[] = {"ceres", "disney", "ceres_reused", "disney_reused"};
    return std::string(s[strat]) + ",max_iter=" + std::to_string(max_iter);
  }
};

static Opt gen_opt(Rng & r)
{
  static const std::size_t mi[] = {0, 1, 2, 5, 30, 1000, 1000, 1000};
  Opt o;
  o.max_iter = mi[r.below(8)];
  o.ptol     = r.coin(0.5) ? 1e-6 : r.loguni(1e-12, 1e-2);
  o.ftol     = r.coin(0.5) ? 1e-6 : r.loguni(1e-12, 1e-2);
  if (r.coin(0.04)) o.ptol = 0;  // a tolerance of zero can only end in MaxIters (or an exact stationary point)
  if (r.coin(0.04)) o.ftol = 0;
  o.strat    = r.below(4);
  return o;
}

// persistent strategy objects (hostile: radius left over from unrelated earlier problems)
static std::shared_ptr<smooth::CeresStrategy> & shared_ceres()
{
  static auto p = std::make_shared<smooth::CeresStrategy>();
  return p;
}
static std::shared_ptr<smooth::DisneyStrategy> & shared_disney()
{
  static auto p = std::make_shared<smooth::DisneyStrategy>();
  return p;
}

// strategy for a run: returns (strategy to use, a clone with identical state for the determinism re-run)
static std::pair<std::shared_ptr<smooth::TrustRegionStrategy>, std::shared_ptr<smooth::TrustRegionStrategy>> make_strat(int k)
{
  switch (k) {
    case 0: return {std::make_shared<smooth::CeresStrategy>(), std::make_shared<smooth::CeresStrategy>()};
    case 1: return {std::make_shared<smooth::DisneyStrategy>(), std::make_shared<smooth::DisneyStrategy>()};
    // reused objects keep the radius the previous (unrelated) problems left behind, as long as it is a sane
    // number: a radius that under/overflowed is outside anything the statement covers and is replaced
    case 2:
      if (!(shared_ceres()->get_delta() > 1e-12 && shared_ceres()->get_delta() < 1e12)) shared_ceres() = std::make_shared<smooth::CeresStrategy>();
      return {shared_ceres(), std::make_shared<smooth::CeresStrategy>(*shared_ceres())};
    default:
      if (!(shared_disney()->get_delta() > 1e-12 && shared_disney()->get_delta() < 1e12)) shared_disney() = std::make_shared<smooth::DisneyStrategy>();
      return {shared_disney(), std::make_shared<smooth::DisneyStrategy>(*shared_disney())};
  }
}

// ---- hook H2: one record per iteration of minimize (evidence on acceptance paths + status contract)
struct IterLog
{
  long iters = 0, by_take_step = 0, by_nonpositive_prediction = 0, by_zero_residual = 0, rejected = 0, status_events = 0;
  bool last_status_set = false, status_then_continued = false;
};
static thread_local IterLog * g_iterlog = nullptr;
static void iter_cb(const smooth::verif::MinimizeIter & e)
{
  if (!g_iterlog) return;
  IterLog & l = *g_iterlog;
  if (l.last_status_set) l.status_then_continued = true;  // an iteration ran after a status had been set
  ++l.iters;
  if (!e.stepped) ++l.rejected;
  else if (e.take_step) ++l.by_take_step;
  else if (e.r_n == 0) ++l.by_zero_residual;
  else ++l.by_nonpositive_prediction;
  if (e.status_set) ++l.status_events;
  l.last_status_set = e.status_set;
}

template<DT D, typename F, typename... X>
static Outcome run_min(F & f, const MinimizeOptions & mo, X &... x)
{
  Outcome o;
  auto cb = [&](const auto &... a) {
    Event e;
    e.args = flat(a...);
    e.cost = f(a...).norm();
    o.ev.push_back(std::move(e));
  };
  o.res        = smooth::minimize<D>(f, smooth::wrt(x...), cb, mo);
  o.final_args = flat(x...);
  return o;
}

static const char * status_name(SolveResult::Status s)
{
  return s == SolveResult::Status::Ftol ? "Ftol" : (s == SolveResult::Status::Ptol ? "Ptol" : "MaxIters");
}

// One monitored problem instance. make_x(): fresh copy of the start arguments (tuple); f: residual;
// S: data scale of the terms inside f; m: number of residuals; dist(args...) -> distance to the unique
// minimiser or negative if the family has no such claim.
template<DT D, typename F, typename Tuple, typename Dist>
static void monitor(Report & rep, const std::string & fam, const std::string & mode, F & f, const Tuple & x0, const Opt & opt, double S, Dist dist,
  bool analytic_exact, const std::function<std::string()> & det0)
{
  const std::string site = fam + "." + mode;
  const std::string st   = opt.label();
  auto [strat, strat_clone] = make_strat(opt.strat);
  MinimizeOptions mo;
  mo.strat    = strat;
  mo.ptol     = opt.ptol;
  mo.ftol     = opt.ftol;
  mo.max_iter = opt.max_iter;

  Tuple xa = x0;
  IterLog ilog;
  g_iterlog                       = &ilog;
  smooth::verif::minimize_iter_cb = iter_cb;
  Outcome o = std::apply([&](auto &... a) { return run_min<D>(f, mo, a...); }, xa);
  smooth::verif::minimize_iter_cb = nullptr;
  g_iterlog                       = nullptr;

  const std::vector<double> start = std::apply([&](const auto &... a) { return flat(a...); }, x0);
  const double cost0 = std::apply([&](const auto &... a) { return double(f(a...).norm()); }, x0);
  const long m       = long(std::apply([&](const auto &... a) { return f(a...).size(); }, x0));
  auto det = [&]() {
    std::string costs = "[";
    for (size_t i = 0; i < o.ev.size() && i < 40; ++i) costs += (i ? "," : "") + jnum(o.ev[i].cost);
    costs += "]";
    long bad = -1;
    for (size_t i = 0; i < o.ev.size(); ++i) if (!(o.ev[i].cost == o.ev[i].cost)) { bad = long(i); break; }
    if (bad >= 0) {
      costs += ", \"first_nonfinite_index\": " + std::to_string(bad) + ", \"args_before\": [";
      if (bad > 0) for (size_t i = 0; i < o.ev[bad - 1].args.size(); ++i) costs += (i ? "," : "") + jnum(o.ev[bad - 1].args[i]);
      costs += "], \"args_at\": [";
      for (size_t i = 0; i < o.ev[bad].args.size(); ++i) costs += (i ? "," : "") + jnum(o.ev[bad].args[i]);
      costs += "]";
    }
    return JObj().str("family", fam).str("mode", mode).str("opt", st).num("ptol", opt.ptol).num("ftol", opt.ftol).str("status", status_name(o.res.status))
      .integer("iter", o.res.iter).integer("callbacks", (long long)o.ev.size()).raw("costs", costs).raw("problem", det0()).done();
  };
  rep.count(std::string("C09.status.") + status_name(o.res.status));
  rep.count("C09.iterations", long(o.res.iter));
  rep.count("C09.accepted_steps", long(o.ev.size()) - 1);
  rep.count("C09.rejected_steps", long(o.res.iter) - (long(o.ev.size()) - 1));

  // hook events: acceptance paths (evidence) and the status contract decided from the event stream:
  // MaxIters is returned exactly when no iteration set a status, and no iteration runs after a status was set
  rep.count("C09.hook.iterations", ilog.iters);
  rep.count("C09.hook.accepted_by_take_step", ilog.by_take_step);
  rep.count("C09.hook.accepted_by_nonpositive_prediction", ilog.by_nonpositive_prediction);
  rep.count("C09.hook.accepted_by_zero_residual", ilog.by_zero_residual);
  rep.count("C09.hook.rejected", ilog.rejected);
  rep.require(site + ".hook.iterations_match_result", st, ilog.iters == long(o.res.iter), det);
  rep.require(site + ".hook.maxiters_iff_no_status_event", st,
    (o.res.status == SolveResult::Status::MaxIters) == (ilog.status_events == 0) && !ilog.status_then_continued, det);
  rep.require(site + ".hook.accepted_steps_match_callbacks", st,
    ilog.by_take_step + ilog.by_nonpositive_prediction + ilog.by_zero_residual == long(o.ev.size()) - 1, det);
  // callback history: initial point first
  rep.require(site + ".callback_first_is_start", st, !o.ev.empty() && o.ev[0].args == start, det);
  if (o.ev.empty()) return;
  // non-increasing cost along the iterates (rounding slack of evaluating f)
  const L abs_slack = 1e-13L * S * sqrtl(L(std::max<long>(1, m)));
  L worst_inc       = 0;
  bool finite       = true;
  for (size_t k = 0; k + 1 < o.ev.size(); ++k) {
    const L a = o.ev[k].cost, b = o.ev[k + 1].cost;
    if (!(b == b) || !(a == a)) finite = false;
    const L inc = b - a * (1 + 1e-10L) - abs_slack;
    if (inc > worst_inc) worst_inc = inc;
  }
  rep.judge(site + ".monotone_cost", st, finite ? worst_inc / std::max<L>(S, 1e-300L) : INFINITY, 0, det);
  // at most one accepted step per iteration
  rep.require(site + ".callbacks_le_iter_plus_1", st, o.ev.size() <= size_t(o.res.iter) + 1, det);
  // arguments finally hold the last iterate
  {
    const auto & last = o.ev.back().args;
    L worst = 0, cmax = 0;
    for (size_t i = 0; i < last.size(); ++i) {
      worst = std::max(worst, fabsl(L(last[i]) - L(o.final_args[i])));
      cmax  = std::max(cmax, fabsl(L(last[i])));
    }
    // numerical differentiation perturbs the arguments in place and restores them up to rounding in every
    // iteration after the last accepted step (see C08); analytic modes never touch them
    const long after = long(o.res.iter) - (long(o.ev.size()) - 1);
    const L allow    = analytic_exact ? 0.0L : (1 + after * L(last.size())) * 1e-15L * std::max<L>(cmax, 1);
    rep.judge(site + ".final_args_are_last_iterate", st, worst, allow, det);
  }
  // never worse than the start
  {
    const double costf = std::apply([&](const auto &... a) { return double(f(a...).norm()); }, xa);
    rep.judge(site + ".not_worse_than_start", st, (L(costf) - L(cost0) * (1 + 1e-10L) - abs_slack) / std::max<L>(S, 1e-300L), 0, det);
  }
  // iteration bound
  rep.require(site + ".iter_le_max_iter", st, o.res.iter <= opt.max_iter, det);
  if (o.res.status == SolveResult::Status::MaxIters) rep.require(site + ".maxiters_means_exhausted", st, o.res.iter == opt.max_iter, det);
  // status truthfulness by a deterministic re-run with a larger budget from identical state
  {
    MinimizeOptions mo2 = mo;
    mo2.strat           = strat_clone;
    mo2.max_iter        = opt.max_iter + 5;
    Tuple xb            = x0;
    Outcome o2          = std::apply([&](auto &... a) { return run_min<D>(f, mo2, a...); }, xb);
    bool ok;
    if (o.res.status == SolveResult::Status::MaxIters) {
      // it stopped only because of the budget: with more budget it must go on
      ok = o2.res.iter > opt.max_iter || (o2.res.iter == opt.max_iter && false);
    } else {
      ok = o2.res.status == o.res.status && o2.res.iter == o.res.iter;
    }
    rep.require(site + ".status_truthful", st, ok, [&]() {
      return JObj().raw("run", det()).str("status_longer", status_name(o2.res.status)).integer("iter_longer", o2.res.iter).done();
    });
  }
  // minimiser
  // (claimed for the two strategies as constructed; a radius inherited from another solve may legitimately stop
  //  the iteration early with Ptol - see DESIGN.md C09)
  if (o.res.status != SolveResult::Status::MaxIters && opt.ptol <= 1e-6 && opt.ftol <= 1e-6 && opt.strat < 2) {
    const double dd = std::apply([&](const auto &... a) { return dist(a...); }, xa);
    if (dd >= 0) rep.judge(site + ".finds_minimiser", st, dd, 1e-3L, det);
  }
}

// ------------------------------------------------------------------ problem families
struct LinDyn
{
  Eigen::MatrixXd A;
  Eigen::VectorXd b;
  Eigen::VectorXd operator()(const Eigen::VectorXd & x) const { return A * x - b; }
};
struct LinDynJ : LinDyn
{
  Eigen::MatrixXd jacobian(const Eigen::VectorXd &) const { return A; }
};
struct LinDynSp : LinDyn
{
  Eigen::SparseMatrix<double> jacobian(const Eigen::VectorXd &) const { return A.sparseView(); }
};

struct LinStat
{
  Eigen::Matrix<double, 6, 3> A;
  Eigen::Matrix<double, 6, 1> b;
  Eigen::Matrix<double, 6, 1> operator()(const Eigen::Vector3d & x) const { return A * x - b; }
  Eigen::Matrix<double, 6, 3> jacobian(const Eigen::Vector3d &) const { return A; }
};

template<typename G, int NP>
struct Align
{
  static constexpr int P = (std::is_same_v<G, smooth::SE2d>) ? 2 : 3;
  std::array<Eigen::Matrix<double, P, 1>, NP> p, q;
  Eigen::Matrix<double, P * NP, 1> operator()(const G & g) const
  {
    Eigen::Matrix<double, P * NP, 1> r;
    for (int i = 0; i < NP; ++i) r.template segment<P>(P * i) = g * p[size_t(i)] - q[size_t(i)];
    return r;
  }
};
template<typename G, int NP>
struct AlignJ : Align<G, NP>
{
  using B = Align<G, NP>;
  Eigen::Matrix<double, B::P * NP, G::Dof> jacobian(const G & g) const
  {
    Eigen::Matrix<double, B::P * NP, G::Dof> J;
    for (int i = 0; i < NP; ++i) J.template middleRows<B::P>(B::P * i) = g.dr_action(this->p[size_t(i)]);
    return J;
  }
};
template<typename G, int NP>
struct AlignJsp : Align<G, NP>
{
  using B = Align<G, NP>;
  Eigen::SparseMatrix<double> jacobian(const G & g) const
  {
    Eigen::Matrix<double, B::P * NP, G::Dof> J;
    for (int i = 0; i < NP; ++i) J.template middleRows<B::P>(B::P * i) = g.dr_action(this->p[size_t(i)]);
    return J.sparseView();
  }
};

template<typename G>
static G near_elem(const Layout & l, Rng & r, const G & c, double rad)
{
  Vec a(l.dof);
  for (int i = 0; i < l.dof; ++i) a(i) = rad * r.sym();
  return c + a.template cast<double>();
}

template<typename G, int NP>
static void align_family(Report & rep, const std::string & name, long nq)
{
  const LayoutP lp = TI<G>::layout();
  rep.run_stream(name, nq, [&](Rng & r, long i) {
    const Opt opt = gen_opt(r);
    AlignJ<G, NP> f;
    const G gstar = make_elem<G>(gen_coeffs<double>(*lp, r, R_GENERIC, T_SMALL));
    const double noise = r.coin(0.5) ? 0.0 : r.loguni(1e-8, 1e-4);
    for (int k = 0; k < NP; ++k) {
      for (int c = 0; c < f.P; ++c) f.p[size_t(k)](c) = 2 * r.sym();
      f.q[size_t(k)] = gstar * f.p[size_t(k)];
      for (int c = 0; c < f.P; ++c) f.q[size_t(k)](c) += noise * r.sym();
    }
    const int sm = r.below(4);
    const G g0   = sm == 0 ? gstar : near_elem(*lp, r, gstar, sm == 1 ? 1e-3 : (sm == 2 ? 0.3 : 1.0));
    auto det0    = [&]() { return JObj().raw("gstar", hexv(toL(gstar.coeffs()))).raw("g0", hexv(toL(g0.coeffs()))).num("noise", noise).done(); };
    rep.note_input(Report::hash_vec(toL(g0.coeffs()), Report::hash_vec(toL(gstar.coeffs()))), sm != 0);
    // the generating transform is within noise * O(1) of the unique minimiser (points are in general position)
    auto dist = [&](const G & g) { return double((g - gstar).template lpNorm<Eigen::Infinity>()); };
    const double S = 4;
    const std::tuple<G> x0{g0};
    switch (i % 4) {
      case 0: monitor<DT::Numerical>(rep, name, "numerical", static_cast<Align<G, NP> &>(f), x0, opt, S, dist, false, det0); break;
      case 1: monitor<DT::Analytic>(rep, name, "analytic", f, x0, opt, S, dist, true, det0); break;
      case 2: monitor<DT::Default>(rep, name, "default_has_jacobian", f, x0, opt, S, dist, true, det0); break;
      default: {
        AlignJsp<G, NP> fs;
        fs.p = f.p;
        fs.q = f.q;
        monitor<DT::Analytic>(rep, name, "analytic_sparse", fs, x0, opt, S, dist, true, det0);
      }
    }
  });
}

int main(int argc, char ** argv)
{
  Args args = parse_args(argc, argv);
  Report rep(args);

  // ---------------- linear least squares, dynamic size
  rep.run_stream("linear_dynamic", NQ(rep, 400, 12000), [&](Rng & r, long i) {
    const Opt opt = gen_opt(r);
    const int n = 1 + r.below(8), m = n + r.below(8);
    LinDynJ f;
    f.A.resize(m, n);
    // well conditioned: orthogonal-ish columns with singular values in [1, 10]
    for (int a = 0; a < m; ++a)
      for (int b = 0; b < n; ++b) f.A(a, b) = r.sym() + (a == b ? 3.0 * (1 + r.uni()) : 0.0);
    Eigen::VectorXd xs = Eigen::VectorXd::NullaryExpr(n, [&]() { return 3 * r.sym(); });
    const double noise = r.coin(0.5) ? 0.0 : r.loguni(1e-8, 1e-4);
    f.b                = f.A * xs + noise * Eigen::VectorXd::NullaryExpr(m, [&]() { return r.sym(); });
    // exact minimiser by long-double normal equations
    const Mat Al = toL(f.A), bl = toL(f.b);
    const Eigen::VectorXd xmin = Vec(orc::solve(Al.transpose() * Al, Al.transpose() * bl)).cast<double>();
    const int sm = r.below(3);
    Eigen::VectorXd x0 = sm == 0 ? xmin : (sm == 1 ? Eigen::VectorXd(Eigen::VectorXd::Zero(n)) : Eigen::VectorXd(xmin + Eigen::VectorXd::NullaryExpr(n, [&]() { return 10 * r.sym(); })));
    auto det0 = [&]() { return JObj().integer("m", m).integer("n", n).raw("x0", hexv(x0)).raw("xmin", hexv(xmin)).done(); };
    rep.note_input(Report::hash_vec(x0, Report::hash_vec(f.b)), true);
    auto dist = [&](const Eigen::VectorXd & x) { return double((x - xmin).lpNorm<Eigen::Infinity>()); };
    const double S = double(f.A.cwiseAbs().maxCoeff() * (xmin.cwiseAbs().maxCoeff() + 10) + f.b.cwiseAbs().maxCoeff());
    const std::tuple<Eigen::VectorXd> t0{x0};
    switch (i % 4) {
      case 0: monitor<DT::Numerical>(rep, "linear_dynamic", "numerical", static_cast<LinDyn &>(f), t0, opt, S, dist, false, det0); break;
      case 1: monitor<DT::Analytic>(rep, "linear_dynamic", "analytic", f, t0, opt, S, dist, true, det0); break;
      case 2: {
        LinDynSp fs;
        fs.A = f.A;
        fs.b = f.b;
        monitor<DT::Analytic>(rep, "linear_dynamic", "analytic_sparse", fs, t0, opt, S, dist, true, det0);
        break;
      }
      default: monitor<DT::Default>(rep, "linear_dynamic", "default_no_jacobian", static_cast<LinDyn &>(f), t0, opt, S, dist, false, det0);
    }
  });

  // ---------------- linear least squares, static size
  rep.run_stream("linear_static", NQ(rep, 300, 8000), [&](Rng & r, long i) {
    const Opt opt = gen_opt(r);
    LinStat f;
    for (int a = 0; a < 6; ++a)
      for (int b = 0; b < 3; ++b) f.A(a, b) = r.sym() + (a == b ? 3.0 : 0.0);
    const Eigen::Vector3d xs(3 * r.sym(), 3 * r.sym(), 3 * r.sym());
    f.b = f.A * xs + 1e-5 * Eigen::Matrix<double, 6, 1>::NullaryExpr([&]() { return r.sym(); });
    const Mat Al = toL(f.A), bl = toL(f.b);
    const Eigen::Vector3d xmin = Vec(orc::solve(Al.transpose() * Al, Al.transpose() * bl)).cast<double>();
    const Eigen::Vector3d x0   = r.coin(0.3) ? Eigen::Vector3d(Eigen::Vector3d::Zero()) : Eigen::Vector3d(xmin + 5 * Eigen::Vector3d(r.sym(), r.sym(), r.sym()));
    auto det0 = [&]() { return JObj().raw("x0", hexv(x0)).raw("xmin", hexv(xmin)).done(); };
    rep.note_input(Report::hash_vec(x0, Report::hash_vec(f.b)), true);
    auto dist = [&](const Eigen::Vector3d & x) { return double((x - xmin).lpNorm<Eigen::Infinity>()); };
    const std::tuple<Eigen::Vector3d> t0{x0};
    if (i % 2) monitor<DT::Numerical>(rep, "linear_static", "numerical", f, t0, opt, 40, dist, false, det0);
    else monitor<DT::Default>(rep, "linear_static", "default_has_jacobian", f, t0, opt, 40, dist, true, det0);
  });

  // ---------------- alignment on groups
  align_family<smooth::SO3d, 4>(rep, "align_SO3", NQ(rep, 400, 12000));
  align_family<smooth::SE3d, 5>(rep, "align_SE3", NQ(rep, 400, 12000));
  align_family<smooth::SE2d, 4>(rep, "align_SE2", NQ(rep, 300, 8000));

  // ---------------- multi-argument + Bundle + scalar
  rep.run_stream("multi_argument", NQ(rep, 300, 8000), [&](Rng & r, long) {
    const Opt opt = gen_opt(r);
    const LayoutP l3 = TI<smooth::SO3d>::layout();
    using B          = smooth::Bundle<smooth::SO3d, Eigen::Vector3d>;
    const smooth::SO3d ga = make_elem<smooth::SO3d>(gen_coeffs<double>(*l3, r, R_GENERIC, 0));
    const Eigen::Vector3d vb(2 * r.sym(), 2 * r.sym(), 2 * r.sym());
    const double sc = r.sym();
    // unique zero-residual minimum at (ga, (ga, vb), sc)
    auto f = [&](const smooth::SO3d & g, const B & b, double s) -> Eigen::Matrix<double, 10, 1> {
      Eigen::Matrix<double, 10, 1> res;
      res.segment<3>(0) = g - ga;
      res.segment<3>(3) = b.part<0>() - g;
      res.segment<3>(6) = b.part<1>() - vb * (1 + (s - sc));
      res(9)            = s - sc;
      return res;
    };
    const smooth::SO3d g0 = near_elem(*l3, r, ga, 0.8);
    B b0;
    b0.part<0>() = near_elem(*l3, r, ga, 0.8);
    b0.part<1>() = vb + Eigen::Vector3d(r.sym(), r.sym(), r.sym());
    const double s0 = sc + 0.5 * r.sym();
    auto det0 = [&]() { return JObj().raw("ga", hexv(toL(ga.coeffs()))).raw("g0", hexv(toL(g0.coeffs()))).raw("b0", hexv(toL(b0.coeffs()))).num("s0", s0).done(); };
    rep.note_input(Report::hash_vec(toL(b0.coeffs()), Report::hash_vec(toL(g0.coeffs()))), true);
    auto dist = [&](const smooth::SO3d & g, const B & b, double s) {
      return std::max({double((g - ga).lpNorm<Eigen::Infinity>()), double((b.part<0>() - ga).lpNorm<Eigen::Infinity>()),
        double((b.part<1>() - vb).lpNorm<Eigen::Infinity>()), std::abs(s - sc)});
    };
    const std::tuple<smooth::SO3d, B, double> t0{g0, b0, s0};
    monitor<DT::Numerical>(rep, "multi_argument", "numerical", f, t0, opt, 4, dist, false, det0);
  });

  // ---------------- hard families: termination / monotonicity only
  rep.run_stream("hard", NQ(rep, 400, 12000), [&](Rng & r, long i) {
    const Opt opt = gen_opt(r);
    auto nodist   = [](const auto &...) { return -1.0; };
    const int fam = int(i % 5);
    if (fam == 0) {  // Rosenbrock
      auto f = [](const Eigen::Vector2d & x) -> Eigen::Vector2d { return Eigen::Vector2d(10 * (x(1) - x(0) * x(0)), 1 - x(0)); };
      const Eigen::Vector2d x0(3 * r.sym(), 3 * r.sym());
      auto det0 = [&]() { return JObj().raw("x0", hexv(x0)).done(); };
      rep.note_input(Report::hash_vec(x0), true);
      monitor<DT::Numerical>(rep, "rosenbrock", "numerical", f, std::tuple<Eigen::Vector2d>{x0}, opt, 100, nodist, false, det0);
    } else if (fam == 1) {  // Powell singular (rank-deficient Jacobian at the minimum)
      auto f = [](const Eigen::Vector4d & x) -> Eigen::Vector4d {
        return Eigen::Vector4d(x(0) + 10 * x(1), std::sqrt(5.) * (x(2) - x(3)), (x(1) - 2 * x(2)) * (x(1) - 2 * x(2)), std::sqrt(10.) * (x(0) - x(3)) * (x(0) - x(3)));
      };
      const Eigen::Vector4d x0(3 * r.sym(), 3 * r.sym(), 3 * r.sym(), 3 * r.sym());
      auto det0 = [&]() { return JObj().raw("x0", hexv(x0)).done(); };
      rep.note_input(Report::hash_vec(x0), true);
      monitor<DT::Numerical>(rep, "powell_singular", "numerical", f, std::tuple<Eigen::Vector4d>{x0}, opt, 300, nodist, false, det0);
    } else if (fam == 2) {  // exponential curve fit, dynamic residual count
      const int m = 5 + r.below(20);
      Eigen::VectorXd t = Eigen::VectorXd::LinSpaced(m, 0, 2), y(m);
      const double a = 1 + r.uni(), b = r.sym();
      for (int k = 0; k < m; ++k) y(k) = a * std::exp(b * t(k)) + 1e-3 * r.sym();
      auto f = [&](const Eigen::Vector2d & th) -> Eigen::VectorXd { return (th(0) * (th(1) * t.array()).exp() - y.array()).matrix(); };
      const Eigen::Vector2d x0(1 + r.sym(), r.sym());
      auto det0 = [&]() { return JObj().raw("x0", hexv(x0)).num("a", a).num("b", b).integer("m", m).done(); };
      rep.note_input(Report::hash_vec(x0, Report::hash_vec(y)), true);
      monitor<DT::Numerical>(rep, "curve_fit", "numerical", f, std::tuple<Eigen::Vector2d>{x0}, opt, 20, nodist, false, det0);
    } else if (fam == 3) {  // zero Jacobian column / rank-deficient linear problem / constant residual
      LinDynJ f;
      const int n = 2 + r.below(4), m = n + r.below(4);
      f.A         = Eigen::MatrixXd::NullaryExpr(m, n, [&]() { return r.sym(); });
      const int k = r.below(3);
      if (k == 0) f.A.col(r.below(n)).setZero();
      if (k == 1) f.A.col(0) = f.A.col(1);
      if (k == 2) f.A.setZero();
      f.b = Eigen::VectorXd::NullaryExpr(m, [&]() { return r.sym(); });
      const Eigen::VectorXd x0 = Eigen::VectorXd::NullaryExpr(n, [&]() { return 3 * r.sym(); });
      auto det0 = [&]() { return JObj().integer("kind", k).raw("x0", hexv(x0)).done(); };
      rep.note_input(Report::hash_vec(x0, Report::hash_vec(f.b)), true);
      if (r.coin()) monitor<DT::Analytic>(rep, "rank_deficient", "analytic", f, std::tuple<Eigen::VectorXd>{x0}, opt, 10, nodist, true, det0);
      else monitor<DT::Numerical>(rep, "rank_deficient", "numerical", static_cast<LinDyn &>(f), std::tuple<Eigen::VectorXd>{x0}, opt, 10, nodist, false, det0);
    } else {  // zero residual at the start (r_n == 0 path)
      LinDynJ f;
      const int n = 1 + r.below(4);
      f.A         = Eigen::MatrixXd::Identity(n, n);
      const Eigen::VectorXd x0 = Eigen::VectorXd::NullaryExpr(n, [&]() { return double(r.below(5)); });
      f.b = x0;
      auto det0 = [&]() { return JObj().raw("x0", hexv(x0)).done(); };
      rep.note_input(Report::hash_vec(x0, uint64_t(n)), true);
      auto dist = [&](const Eigen::VectorXd & x) { return double((x - x0).lpNorm<Eigen::Infinity>()); };
      monitor<DT::Analytic>(rep, "zero_residual_start", "analytic", f, std::tuple<Eigen::VectorXd>{x0}, opt, 5, dist, true, det0);
    }
  });

  // ---------------- residuals with a restricted domain: trial points outside it evaluate to NaN and must be rejected
  rep.run_stream("restricted_domain", NQ(rep, 300, 8000), [&](Rng & r, long i) {
    Opt opt = gen_opt(r);
    if (opt.max_iter < 5) opt.max_iter = 100;
    auto nodist = [](const auto &...) { return -1.0; };
    if (i % 2 == 0) {
      // r(x) = log(x) + c: the Gauss-Newton step from x0 > e^(1-c) overshoots to negative x
      const double c = r.range(0.5, 3);
      auto f = [c](const Eigen::Matrix<double, 1, 1> & x) -> Eigen::Matrix<double, 1, 1> { return Eigen::Matrix<double, 1, 1>(std::log(x(0)) + c); };
      Eigen::Matrix<double, 1, 1> x0(r.loguni(0.05, 50));
      auto det0 = [&]() { return JObj().num("c", c).num("x0", x0(0)).done(); };
      rep.note_input(hash_bytes(&c, sizeof c, Report::hash_vec(x0)), true);
      const std::tuple<Eigen::Matrix<double, 1, 1>> t0{x0};
      if (i % 4 == 0) monitor<DT::Numerical>(rep, "log_root", "numerical", f, t0, opt, 5, nodist, false, det0);
      else monitor<DT::Default>(rep, "log_root", "default_no_jacobian", f, t0, opt, 5, nodist, false, det0);
    } else {
      // y = sqrt(a + b t): outside {a + b t >= 0} the model is NaN
      const int m = 6 + r.below(10);
      const double a = 1 + r.uni(), b = 0.2 + r.uni();
      Eigen::VectorXd t = Eigen::VectorXd::LinSpaced(m, 0, 4), y(m);
      for (int k = 0; k < m; ++k) y(k) = std::sqrt(a + b * t(k));
      auto f = [&](const Eigen::Vector2d & th) -> Eigen::VectorXd { return ((th(0) + th(1) * t.array()).sqrt() - y.array()).matrix(); };
      const Eigen::Vector2d x0(r.loguni(1, 60), r.coin() ? -r.loguni(0.1, 5) : r.loguni(0.1, 5));
      auto det0 = [&]() { return JObj().num("a", a).num("b", b).integer("m", m).raw("x0", hexv(x0)).done(); };
      rep.note_input(Report::hash_vec(x0, Report::hash_vec(y)), true);
      const std::tuple<Eigen::Vector2d> t0{x0};
      // the start itself must be inside the domain
      if (!f(x0).allFinite()) return;
      monitor<DT::Numerical>(rep, "sqrt_fit", "numerical", f, t0, opt, 10, nodist, false, det0);
    }
  });

  rep.write();
  return 0;
}
