// Monitor C11: cumulative spline evaluation, body-frame derivatives and Jacobians are exact.
#include "harness/spline_oracle.hpp"

#include <smooth/spline/cumulative_spline.hpp>

using namespace vh;

#ifndef TS
#define TS 0
#endif

static long NQ(const Report & rep, long quick, long thorough) { return rep.args.tier ? thorough : quick; }

template<typename P>
static Mat elemL(const Layout & l, const P & p)
{
  if constexpr (smooth::MatrixType<P>) return l.matrix(toL(p));
  else return l.matrix(toL(p.coeffs()));
}

template<int K, typename G>
static void cspline_monitor(Report & rep)
{
  using S             = smooth::Scalar<G>;
  constexpr int N     = smooth::Dof<G>;
  using Tangent       = Eigen::Matrix<S, N, 1>;
  const LayoutP lp    = TI<G>::layout();
  const Layout & l    = *lp;
  const std::string T = TI<G>::name() + ".K" + std::to_string(K);

  rep.run_stream(T, NQ(rep, 150, 4000), [&](Rng & r, long idx) {
    // basis: Bernstein / B-spline cumulative (harness' own matrices) or a random matrix
    const int bk = int(idx % 3);
    Mat Bl;
    if (bk == 0) Bl = cumulative(bernstein_matrix(K));
    else if (bk == 1) Bl = cumulative(bspline_matrix(K));
    else {
      Bl = Mat(K + 1, K + 1);
      for (int i = 0; i <= K; ++i)
        for (int j = 0; j <= K; ++j) Bl(i, j) = L(double(r.sym()));
    }
    const Eigen::Matrix<S, K + 1, K + 1> B = Bl.template cast<S>();
    Bl                                     = toL(B);
    const char * bname = bk == 0 ? "bernstein" : (bk == 1 ? "bspline" : "random");
    // evaluation parameter
    S u;
    const int uk = r.below(6);
    if (uk == 0) u = 0;
    else if (uk == 1) u = 1;
    else if (uk == 2) u = S(1e-9);
    else if (uk == 3) u = S(1 - 1e-9);
    else u = S(r.uni());
    // differences: hostile strata but inside the injectivity radius (sum of rotations stays below ~2.5)
    static const int modes[] = {R_ZERO, R_TINY, R_BAND, R_BAND, R_MODERATE, R_MODERATE, R_MODERATE};
    std::vector<Tangent> vs;
    std::vector<Vec> vsl;
    for (int j = 0; j < K; ++j) {
      Vec v = gen_tangent<S>(l, r, modes[r.below(7)], r.below(3) == 0 ? T_ZERO : T_SMALL);
      for (int i = 0; i < l.dof; ++i)
        if (fabsl(v(i)) > 2) v(i) = L(S(v(i) / 4));
      vs.push_back(v.template cast<S>());
      vsl.push_back(toL(vs.back()));
    }
    L rotmax = 0;
    for (auto & v : vsl) rotmax = std::max(rotmax, classify_tangent(l, v).rotmax);
    const std::string st = std::string(bname) + ",u:" + (uk == 0 ? "0" : (uk == 1 ? "1" : (uk == 2 ? "1e-9" : (uk == 3 ? "1-1e-9" : "interior")))) + ",rot:" + rot_label(rotmax);
    auto det = [&]() {
      Vec all(K * l.dof);
      for (int j = 0; j < K; ++j) all.segment(j * l.dof, l.dof) = vsl[size_t(j)];
      return JObj().str("type", T).str("basis", bname).num("u", u).raw("vs", hexv(all)).done();
    };
    {
      uint64_t h = hash_bytes(&u, sizeof u, uint64_t(bk));
      for (auto & v : vsl) h = Report::hash_vec(v, h);
      rep.note_input(h, rotmax > 0);
    }

    // ---- value and body-frame derivatives from differences
    const CurvePoint ref = cspline_oracle(l, Bl, L(u), vsl);
    L scale = 1;
    for (auto & v : vsl) scale = std::max(scale, orc::maxabs(v));
    const L Bs = std::max<L>(1, orc::maxabs(Bl)) * K;
    {
      Tangent vel, acc, jer;
      const G g = smooth::cspline_eval_vs<K, G>(vs, B, u, vel, acc, jer);
      rep.judge(T + ".vs.value", st, orc::err_rel1(elemL(l, g), ref.G), 1e-9L, det);
      rep.judge(T + ".vs.vel", st, orc::maxabs(toL(vel) - ref.vel) / (scale * Bs), 1e-8L, det);
      rep.judge(T + ".vs.acc", st, orc::maxabs(toL(acc) - ref.acc) / (scale * scale * Bs * Bs), 1e-8L, det);
      rep.judge(T + ".vs.jerk", st, orc::maxabs(toL(jer) - ref.jerk) / (scale * scale * scale * Bs * Bs * Bs), 1e-8L, det);
      // optional outputs do not change the value
      const G g2 = smooth::cspline_eval_vs<K, G>(vs, B, u);
      rep.judge(T + ".vs.value_without_outputs", st, orc::maxabs(toL(elemL(l, g2)) - elemL(l, g)), 0, det);
    }
    // ---- anchored at control points
    std::vector<G> gs;
    std::vector<Mat> gsl;
    {
      G g0;
      if constexpr (smooth::MatrixType<G>) {
        g0 = gen_tangent<S>(l, r, 0, T_SMALL).template cast<S>();
      } else {
        g0 = make_elem<G>(gen_coeffs<S>(l, r, R_GENERIC, T_SMALL));
      }
      gs.push_back(g0);
      for (int j = 0; j < K; ++j) gs.push_back(smooth::rplus(gs.back(), vs[size_t(j)]));
      for (auto & g : gs) gsl.push_back(elemL(l, g));
    }
    const CurvePoint refg = cspline_oracle_gs(l, Bl, L(u), gsl);
    {
      Tangent vel, acc, jer;
      const G g = smooth::cspline_eval_gs<K>(gs, B, u, vel, acc, jer);
      rep.judge(T + ".gs.value", st, orc::err_rel1(elemL(l, g), refg.G), 1e-9L, det);
      rep.judge(T + ".gs.vel", st, orc::maxabs(toL(vel) - refg.vel) / (scale * Bs), 1e-8L, det);
      rep.judge(T + ".gs.acc", st, orc::maxabs(toL(acc) - refg.acc) / (scale * scale * Bs * Bs), 1e-8L, det);
      rep.judge(T + ".gs.jerk", st, orc::maxabs(toL(jer) - refg.jerk) / (scale * scale * scale * Bs * Bs * Bs), 1e-8L, det);
    }

    // ---- Jacobians (a third of the cases: the oracle differentiates by extended-precision differences)
    if (idx % 3 == 0) {
      const L h = 1e-3L;
      auto at_vs = [&](int j, int k, L hh) {
        std::vector<Vec> w = vsl;
        w[size_t(j)](k) += hh;
        return cspline_oracle(l, Bl, L(u), w);
      };
      Mat Jg(N, N * K), Jv(N, N * K), Ja(N, N * K);
      const Mat Gi = orc::inv(ref.G);
      for (int j = 0; j < K; ++j)
        for (int k = 0; k < N; ++k) {
          const CurvePoint p2 = at_vs(j, k, 2 * h), p1 = at_vs(j, k, h), m1 = at_vs(j, k, -h), m2 = at_vs(j, k, -2 * h);
          auto dG = [&](const CurvePoint & p) { return orc::log_ref(l, Gi * p.G); };
          Jg.col(j * N + k) = (-dG(p2) + 8 * dG(p1) - 8 * dG(m1) + dG(m2)) / (12 * h);
          Jv.col(j * N + k) = (-p2.vel + 8 * p1.vel - 8 * m1.vel + m2.vel) / (12 * h);
          Ja.col(j * N + k) = (-p2.acc + 8 * p1.acc - 8 * m1.acc + m2.acc) / (12 * h);
        }
      smooth::SplineJacobian<G, K - 1> dvel, dacc;
      const auto dg = smooth::cspline_eval_dg_dvs<K, G>(vs, B, u, dvel, dacc);
      const L js    = std::max<L>(1, scale * scale) * Bs * Bs;
      rep.judge(T + ".dg_dvs", st, orc::maxabs(toL(dg) - Jg) / std::max<L>(1, orc::maxabs(Jg)), 1e-7L, det);
      rep.judge(T + ".dvel_dvs", st, orc::maxabs(toL(dvel) - Jv) / std::max<L>(js, orc::maxabs(Jv)), 1e-7L, det);
      rep.judge(T + ".dacc_dvs", st, orc::maxabs(toL(dacc) - Ja) / std::max<L>(js * Bs, orc::maxabs(Ja)), 1e-7L, det);

      // w.r.t. control points (right perturbations g_i exp(delta))
      auto at_gs = [&](int j, int k, L hh) {
        std::vector<Mat> w = gsl;
        w[size_t(j)]       = w[size_t(j)] * orc::expm(l.hat(orc::unit(N, k) * hh));
        return cspline_oracle_gs(l, Bl, L(u), w);
      };
      Mat Kg(N, N * (K + 1)), Kv(N, N * (K + 1)), Ka(N, N * (K + 1));
      const Mat Ggi = orc::inv(refg.G);
      for (int j = 0; j <= K; ++j)
        for (int k = 0; k < N; ++k) {
          const CurvePoint p2 = at_gs(j, k, 2 * h), p1 = at_gs(j, k, h), m1 = at_gs(j, k, -h), m2 = at_gs(j, k, -2 * h);
          auto dG = [&](const CurvePoint & p) { return orc::log_ref(l, Ggi * p.G); };
          Kg.col(j * N + k) = (-dG(p2) + 8 * dG(p1) - 8 * dG(m1) + dG(m2)) / (12 * h);
          Kv.col(j * N + k) = (-p2.vel + 8 * p1.vel - 8 * m1.vel + m2.vel) / (12 * h);
          Ka.col(j * N + k) = (-p2.acc + 8 * p1.acc - 8 * m1.acc + m2.acc) / (12 * h);
        }
      smooth::SplineJacobian<G, K> dvelg, daccg;
      const auto dgg = smooth::cspline_eval_dg_dgs<K>(gs, B, u, dvelg, daccg);
      rep.judge(T + ".dg_dgs", st, orc::maxabs(toL(dgg) - Kg) / std::max<L>(1, orc::maxabs(Kg)), 1e-7L, det);
      rep.judge(T + ".dvel_dgs", st, orc::maxabs(toL(dvelg) - Kv) / std::max<L>(js, orc::maxabs(Kv)), 1e-7L, det);
      rep.judge(T + ".dacc_dgs", st, orc::maxabs(toL(daccg) - Ka) / std::max<L>(js * Bs, orc::maxabs(Ka)), 1e-7L, det);
    }
  });
}

int main(int argc, char ** argv)
{
  Args args = parse_args(argc, argv);
  Report rep(args);
  using namespace smooth;
  using V3d = Eigen::Vector3d;
  using B2  = Bundle<SO3d, Eigen::Vector2d>;
#if TS == 0
  cspline_monitor<1, SO3d>(rep);
  cspline_monitor<3, SO3d>(rep);
  cspline_monitor<5, SO3d>(rep);
  cspline_monitor<1, SE3d>(rep);
  cspline_monitor<3, SE3d>(rep);
  cspline_monitor<5, SE3d>(rep);
  cspline_monitor<3, SE2d>(rep);
  cspline_monitor<3, V3d>(rep);
  cspline_monitor<2, B2>(rep);
#else
  cspline_monitor<2, SO3d>(rep);
  cspline_monitor<4, SO3d>(rep);
  cspline_monitor<6, SO3d>(rep);
  cspline_monitor<2, SE3d>(rep);
  cspline_monitor<4, SE3d>(rep);
  cspline_monitor<6, SE3d>(rep);
  cspline_monitor<1, SE2d>(rep);
  cspline_monitor<5, SE2d>(rep);
  cspline_monitor<6, V3d>(rep);
  cspline_monitor<4, B2>(rep);
#endif
  rep.write();
  return 0;
}
