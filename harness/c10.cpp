// Monitor C10: solve_linear_ldlt / solve_trust_region return the regularised least-squares minimiser.
#include <Eigen/Sparse>

#include "harness/gen.hpp"

#include <smooth/detail/math.hpp>
#include <smooth/optim/tr_solver.hpp>

using namespace vh;

static long NQ(const Report & rep, long quick, long thorough) { return rep.args.tier ? thorough : quick; }

static L norm2(const Mat & v) { return sqrtl((v.array() * v.array()).sum()); }

// condition number of a symmetric positive (semi)definite matrix from its Jacobi eigenvalues
// (small eigenvalues are resolved down to ~1e-19 |H|; anything below 1e-16 |H| is reported as infinite)
static L cond_spd(const Mat & H)
{
  const Vec ev = orc::eigvals_sym(H);
  const L lmax = ev(ev.size() - 1), lmin = ev(0);
  if (!(lmax > 0) || !(lmin > 1e-16L * lmax)) return INFINITY;
  return lmax / lmin;
}

struct Problem
{
  Eigen::MatrixXd J;
  Eigen::VectorXd d, r;
  double lambda;
  std::string kind;
};

static Problem gen_problem(Rng & rg)
{
  Problem p;
  const int m = 1 + rg.below(40), n = 1 + rg.below(40);
  p.J.resize(m, n);
  // magnitude regime: ordinary, or small-magnitude data (the minimiser is invariant under a common scaling of
  // (J, D) and linear in r, so tiny J and r must be solved just as accurately)
  const bool tiny = rg.coin(0.25);
  const double sc = tiny ? rg.loguni(1e-10, 1e-3) : rg.loguni(1e-3, 1e3);
  const double dens = rg.coin(0.5) ? 1.0 : rg.range(0.05, 0.6);
  const bool wide_entries = rg.coin(0.3);
  for (int i = 0; i < m; ++i)
    for (int j = 0; j < n; ++j) {
      double v = rg.uni() < dens ? sc * rg.sym() : 0.0;
      if (wide_entries && v != 0) v *= rg.loguni(1e-3, 1e3);
      p.J(i, j) = v;
    }
  const int kind = rg.below(8);
  p.kind         = "fullrank";
  if (kind == 0 && n >= 2) {
    p.J.col(rg.below(n)) = p.J.col(rg.below(n));  // duplicate (or same) column
    p.kind               = "dup_col";
  } else if (kind == 1) {
    p.J.col(rg.below(n)).setZero();
    p.kind = "zero_col";
  } else if (kind == 2) {
    p.J.row(rg.below(m)).setZero();
    p.kind = "zero_row";
  } else if (kind == 3) {
    Eigen::VectorXd u = Eigen::VectorXd::NullaryExpr(m, [&]() { return rg.sym(); });
    Eigen::VectorXd v = Eigen::VectorXd::NullaryExpr(n, [&]() { return rg.sym(); });
    p.J               = sc * u * v.transpose();
    p.kind            = "rank1";
  } else if (kind == 4 && n >= 3) {
    // exact linear dependence: one column is the sum of two others
    const int a = rg.below(n), b = rg.below(n), c = rg.below(n);
    if (a != b && a != c) {
      p.J.col(a) = p.J.col(b) + p.J.col(c);
      p.kind     = "lin_dep";
    }
  }
  if (m < n && p.kind == "fullrank") p.kind = "wide";
  p.d = Eigen::VectorXd::NullaryExpr(n, [&]() { return rg.coin(0.3) ? 1.0 : rg.loguni(1e-6, 1e3); });
  const double rs = tiny ? rg.loguni(1e-14, 1e-3) : rg.loguni(1e-3, 1e3);
  if (tiny) {
    p.kind += "+tiny";
    if (rg.coin()) p.d *= sc;  // Marquardt-like scaling d ~ |J|
  }
  p.r             = Eigen::VectorXd::NullaryExpr(m, [&]() { return rs * rg.sym(); });
  p.lambda        = rg.loguni(1e-6, 1e6);
  if (rg.coin(0.03)) {
    p.r.setZero();  // stationary start: the minimiser is exactly zero
    p.kind += "+zero_r";
  }
  return p;
}

int main(int argc, char ** argv)
{
  Args args = parse_args(argc, argv);
  Report rep(args);

  rep.run_stream("solve", NQ(rep, 6000, 200000), [&](Rng & rg, long) {
    const Problem p = gen_problem(rg);
    const int m = int(p.J.rows()), n = int(p.J.cols());
    Eigen::SparseMatrix<double> Js = p.J.sparseView();
    if (rg.coin(0.3) && m * n > 1) {  // explicit structural zeros
      Js.coeffRef(rg.below(m), rg.below(n)) += 0.0;
    }
    Js.makeCompressed();
    const Mat J = toL(p.J), d = toL(p.d), r = toL(p.r);
    const L lam = p.lambda;
    Mat H       = J.transpose() * J;
    for (int i = 0; i < n; ++i) H(i, i) += lam * d(i) * d(i);
    const Mat g  = J.transpose() * r;
    const L cond = cond_spd(H);
    const std::string cl = cond <= 1e8L ? "cond<=1e8" : (cond <= 1e12L ? "cond<=1e12" : (cond <= 1e15L ? "cond<=1e15" : "cond>1e15"));
    const std::string st = p.kind + "," + cl;
    auto det = [&]() {
      return JObj().integer("m", m).integer("n", n).str("kind", p.kind).num("lambda", p.lambda).num("cond", cond)
        .raw("J", hexv(Eigen::Map<const Eigen::VectorXd>(p.J.data(), p.J.size()))).raw("d", hexv(p.d)).raw("r", hexv(p.r)).done();
    };
    rep.note_input(Report::hash_vec(Eigen::Map<const Eigen::VectorXd>(p.J.data(), p.J.size()), Report::hash_vec(p.r)), true);

    double dphi_d = 0, dphi_s = 0;
    const Eigen::VectorXd xd = smooth::solve_linear_ldlt(p.J, p.d, p.r, p.lambda, dphi_d);
    const Eigen::VectorXd xs = smooth::solve_linear_ldlt(Js, p.d, p.r, p.lambda, dphi_s);
    {
      // the optional dphi output does not influence the step
      const Eigen::VectorXd xd0 = smooth::solve_linear_ldlt(p.J, p.d, p.r, p.lambda), xs0 = smooth::solve_linear_ldlt(Js, p.d, p.r, p.lambda);
      const bool same = xd0.size() == xd.size() && xs0.size() == xs.size() && (xd0.array() == xd.array() || (xd0.array() != xd0.array() && xd.array() != xd.array())).all()
                        && (xs0.array() == xs.array() || (xs0.array() != xs0.array() && xs.array() != xs.array())).all();
      rep.require("ldlt.optional_dphi_does_not_change_dx", st, same, det);
    }
    const Mat Hn = H;
    const L Hnorm = norm2(Hn);  // Frobenius norm bounds the 2-norm from above within sqrt(n)
    auto backward = [&](const Eigen::VectorXd & x) {
      const Mat xl = toL(x);
      return norm2(H * xl + g) / (Hnorm * norm2(xl) + norm2(g) + std::numeric_limits<L>::min());
    };
    if (p.r.isZero(0)) {
      auto detz = [&]() {
        return JObj().raw("problem", det()).num("dense_dx_maxabs", xd.cwiseAbs().maxCoeff()).num("dense_dphi", dphi_d)
          .num("sparse_dx_maxabs", xs.cwiseAbs().maxCoeff()).num("sparse_dphi", dphi_s).done();
      };
      rep.require("ldlt.dense.zero_r_gives_zero_step", st, xd.isZero(0) && std::isfinite(dphi_d), detz);
      rep.require("ldlt.sparse.zero_r_gives_zero_step", st, xs.isZero(0) && std::isfinite(dphi_s), detz);
      return;
    }
    rep.judge("ldlt.dense.normal_equations", st, backward(xd), 1e-8L, det);
    rep.judge("ldlt.sparse.normal_equations", st, backward(xs), 1e-8L, det);
    // linearised cost never increases
    auto lincost = [&](const Eigen::VectorXd & x) { return norm2(J * toL(x) + r) / std::max(norm2(r), std::numeric_limits<L>::min()); };
    rep.judge("ldlt.dense.no_increase", st, lincost(xd), 1 + 1e-12L, det);
    rep.judge("ldlt.sparse.no_increase", st, lincost(xs), 1 + 1e-12L, det);
    if (cond <= 1e8L) {
      const Mat xref = orc::solve(H, -g);
      const L xs_ = std::max(norm2(xref), std::numeric_limits<L>::min());
      rep.judge("ldlt.dense_vs_sparse", st, norm2(toL(xd) - toL(xs)) / xs_, 1e-6L, det);
      rep.judge("ldlt.dense.minimiser", st, norm2(toL(xd) - xref) / xs_, 1e-6L, det);
      rep.judge("ldlt.sparse.minimiser", st, norm2(toL(xs) - xref) / xs_, 1e-6L, det);
      // d phi / d lambda with phi = |D x(lambda)|: exact formula -(D^2 x)' H^-1 (D^2 x) / |D x|, evaluated in long
      // double AT THE RETURNED dx (dx itself is judged above). Demanding agreement with the derivative at the exact
      // minimiser would ask for component-wise accuracy of dx that no backward-stable solver provides
      // (noise components of x enter weighted by d^2) - see DESIGN.md C10.
      auto dphi_at = [&](const Eigen::VectorXd & x) -> L {
        const Mat Dx = d.cwiseProduct(toL(x));
        if (!(norm2(Dx) > 0)) return NAN;
        const Mat D2x = d.cwiseProduct(Dx);
        return -(D2x.transpose() * orc::solve(H, D2x))(0, 0) / norm2(Dx);
      };
      const L rd = dphi_at(xd), rs = dphi_at(xs);
      if (rd == rd) rep.judge("ldlt.dense.dphi", st, fabsl(dphi_d - rd) / std::max(fabsl(rd), std::numeric_limits<L>::min()), 1e-6L, det);
      if (rs == rs) rep.judge("ldlt.sparse.dphi", st, fabsl(dphi_s - rs) / std::max(fabsl(rs), std::numeric_limits<L>::min()), 1e-6L, det);
      // dphi is never positive (phi decreases with lambda)
      rep.judge("ldlt.dphi.sign", st, std::max<L>(0, std::max<L>(dphi_d, dphi_s)), 0, det);
    }
    // solve_trust_region = solve_linear_ldlt at lambda = 1 / Delta
    {
      const double Delta       = 1. / p.lambda;
      const auto [dx, lam_out] = smooth::solve_trust_region(p.J, p.d, p.r, Delta);
      const Eigen::VectorXd xe = smooth::solve_linear_ldlt(p.J, p.d, p.r, 1. / Delta);
      rep.judge("trust_region.dense.same_dx", st, orc::maxabs(toL(dx) - toL(xe)), 0, det);
      rep.judge("trust_region.lambda", st, fabsl(L(lam_out) - 1.0L / L(Delta)), 2e-16L / L(Delta), det);
      const auto [dxs, lam_s] = smooth::solve_trust_region(Js, p.d, p.r, Delta);
      const Eigen::VectorXd xes = smooth::solve_linear_ldlt(Js, p.d, p.r, 1. / Delta);
      rep.judge("trust_region.sparse.same_dx", st, orc::maxabs(toL(dxs) - toL(xes)), 0, det);
      rep.judge("trust_region.dense.no_increase", st, lincost(dx), 1 + 1e-12L, det);
      rep.judge("trust_region.sparse.no_increase", st, lincost(dxs), 1 + 1e-12L, det);
      (void)lam_s;
    }
    // colwise_norm
    {
      const Eigen::VectorXd cd = smooth::colwise_norm(p.J), cs = smooth::colwise_norm(Js);
      Vec ref(n);
      for (int j = 0; j < n; ++j) ref(j) = norm2(J.col(j));
      const L sc = std::max<L>(orc::maxabs(ref), std::numeric_limits<L>::min());
      rep.judge("colwise_norm.dense", st, orc::maxabs(toL(cd) - ref) / sc, 1e-14L, det);
      rep.judge("colwise_norm.sparse", st, orc::maxabs(toL(cs) - ref) / sc, 1e-14L, det);
    }
  });

  // static sizes go through the fixed-size LDLT
  rep.run_stream("solve.static", NQ(rep, 3000, 60000), [&](Rng & rg, long) {
    Eigen::Matrix<double, 6, 3> J;
    Eigen::Vector3d d;
    Eigen::Matrix<double, 6, 1> r;
    const double sc = rg.loguni(1e-3, 1e3);
    for (int i = 0; i < 6; ++i)
      for (int j = 0; j < 3; ++j) J(i, j) = sc * rg.sym();
    const bool dup = rg.coin(0.25);
    if (dup) J.col(2) = J.col(0);
    for (int j = 0; j < 3; ++j) d(j) = rg.loguni(1e-6, 1e3);
    for (int i = 0; i < 6; ++i) r(i) = rg.sym();
    const double lambda = rg.loguni(1e-6, 1e6);
    const Eigen::Vector3d x = smooth::solve_linear_ldlt(J, d, r, lambda);
    const Mat Jl = toL(J), dl = toL(d), rl = toL(r);
    Mat H = Jl.transpose() * Jl;
    for (int i = 0; i < 3; ++i) H(i, i) += L(lambda) * dl(i) * dl(i);
    const Mat g = Jl.transpose() * rl, xl = toL(x);
    auto det = [&]() { return JObj().num("lambda", lambda).raw("J", hexv(Eigen::Map<const Eigen::VectorXd>(J.data(), J.size()))).raw("d", hexv(d)).raw("r", hexv(r)).done(); };
    rep.note_input(Report::hash_vec(Eigen::Map<const Eigen::VectorXd>(J.data(), J.size())), true);
    rep.judge("ldlt.static.normal_equations", dup ? "dup_col" : "fullrank", norm2(H * xl + g) / (norm2(H) * norm2(xl) + norm2(g)), 1e-8L, det);
    rep.judge("ldlt.static.no_increase", dup ? "dup_col" : "fullrank", norm2(Jl * xl + rl) / norm2(rl), 1 + 1e-12L, det);
  });

  rep.write();
  return 0;
}
