// Monitor C13: BSpline is a C^(K-1), local, left-equivariant curve equal to the cumulative B-spline definition.
#include "harness/spline_oracle.hpp"

#include <smooth/spline/bspline.hpp>

using namespace vh;

#ifndef TS
#define TS 0
#endif

static long NQ(const Report & rep, long quick, long thorough) { return rep.args.tier ? thorough : quick; }

template<typename P>
static Mat elemL(const Layout & l, const P & p)
{
  if constexpr (smooth::MatrixType<P>) return l.matrix(toL(p));
  else return l.matrix(toL(p.coeffs()));
}
template<typename P>
static Vec rawL(const P & p)
{
  if constexpr (smooth::MatrixType<P>) return toL(p);
  else return toL(p.coeffs());
}

template<typename G>
static G random_elem(const Layout & l, Rng & r)
{
  using S = smooth::Scalar<G>;
  if constexpr (smooth::MatrixType<G>) {
    return gen_tangent<S>(l, r, 0, T_SMALL).template cast<S>();
  } else {
    return make_elem<G>(gen_coeffs<S>(l, r, R_GENERIC, T_SMALL));
  }
}

struct OraclePoint
{
  CurvePoint p;
  long istar;
  L u;
  bool on_knot;  // s within 1e-9 of an interior knot: discontinuous orders may come from either side
};

static OraclePoint bspline_oracle(const Layout & l, int K, const Mat & Bcum, double t0, double dt, const std::vector<Mat> & ctrl, double t, int side = 0)
{
  const long N = long(ctrl.size());
  const L s    = (L(t) - L(t0)) / L(dt);  // exact function of the same doubles
  OraclePoint o;
  const L rs = roundl(s);
  o.on_knot  = fabsl(s - rs) < 1e-9L && rs > 0 && rs < N - K;
  long i;
  L u;
  if (s < 0) {
    i = 0;
    u = 0;
  } else if (s >= L(N - K)) {
    i = N - K - 1;
    u = 1;
  } else if (o.on_knot && side < 0) {
    i = long(rs) - 1;
    u = std::min<L>(1, s - L(i));
  } else if (o.on_knot && side > 0) {
    i = long(rs);
    u = std::max<L>(0, s - L(i));
  } else {
    i = long(floorl(s));
    u = s - L(i);
  }
  std::vector<Mat> win(ctrl.begin() + i, ctrl.begin() + i + K + 1);
  o.p = cspline_oracle_gs(l, Bcum, u, win);
  o.p.vel /= L(dt);
  o.p.acc /= L(dt) * L(dt);
  o.istar = i;
  o.u     = u;
  return o;
}

template<int K, typename G>
static void bspline_monitor(Report & rep)
{
  using S             = smooth::Scalar<G>;
  constexpr int D     = smooth::Dof<G>;
  using Tangent       = Eigen::Matrix<S, D, 1>;
  const LayoutP lp    = TI<G>::layout();
  const Layout & l    = *lp;
  const std::string T = TI<G>::name() + ".K" + std::to_string(K);
  const Mat Bcum      = cumulative(bspline_matrix(K));

  rep.run_stream(T, NQ(rep, 60, 2000), [&](Rng & r, long) {
    const int N = K + 1 + r.below(30 - K);
    double t0;
    const int tk = r.below(4);
    t0           = tk == 0 ? 0.0 : (tk == 1 ? 1e3 : (tk == 2 ? -1e3 : 3.14159265358979 * r.sym() * 10));
    const double dt = r.loguni(1e-3, 1e2);
    std::vector<G> ctrl;
    ctrl.push_back(random_elem<G>(l, r));
    static const int modes[] = {R_ZERO, R_TINY, R_BAND, R_MODERATE, R_MODERATE, R_MODERATE};
    for (int i = 1; i < N; ++i) {
      Vec v = gen_tangent<S>(l, r, modes[r.below(6)], r.below(3) == 0 ? T_ZERO : T_SMALL);
      for (int k = 0; k < l.dof; ++k)
        if (fabsl(v(k)) > 1.5L) v(k) = L(S(v(k) / 3));
      ctrl.push_back(smooth::rplus(ctrl.back(), v.template cast<S>()));
    }
    std::vector<Mat> cl;
    for (auto & g : ctrl) cl.push_back(elemL(l, g));
    // every construction route must give the same object: range constructor (lvalue vector), rvalue-vector constructor
    // (temporary and std::move), copies and moves of those
    const int route = r.below(5);
    const smooth::BSpline<K, G> spl = [&]() -> smooth::BSpline<K, G> {
      switch (route) {
        case 0: return smooth::BSpline<K, G>(t0, dt, ctrl);
        case 1: return smooth::BSpline<K, G>(t0, dt, std::vector<G>(ctrl));
        case 2: {
          std::vector<G> tmp = ctrl;
          smooth::BSpline<K, G> a(t0, dt, std::move(tmp));
          smooth::BSpline<K, G> b = a;  // copy
          return b;
        }
        case 3: {
          smooth::BSpline<K, G> a;
          a = smooth::BSpline<K, G>(t0, dt, std::vector<G>(ctrl));  // move assignment over a default-constructed one
          return a;
        }
        default: {
          const std::vector<G> & cref = ctrl;
          smooth::BSpline<K, G> a(t0, dt, cref);
          smooth::BSpline<K, G> b(std::move(a));
          return b;
        }
      }
    }();
    rep.count("C13.construction_route." + std::to_string(route));
    const std::string st = "N=" + std::to_string(N <= K + 2 ? N : (N < 12 ? 10 : 30)) + ",dt:" + decade(dt);
    Vec allc(long(N) * l.rep);
    for (int i = 0; i < N; ++i) allc.segment(long(i) * l.rep, l.rep) = rawL(ctrl[size_t(i)]);
    double tcur = 0;
    auto det    = [&]() { return JObj().str("type", T).integer("N", N).num("t0", t0).num("dt", dt).num("t", tcur).raw("ctrl", hexv(allc)).done(); };
    rep.note_input(Report::hash_vec(allc, hash_bytes(&dt, sizeof dt, hash_bytes(&t0, sizeof t0))), true);

    const double tmax = t0 + double(N - K) * dt;
    rep.judge(T + ".t_min", st, fabsl(L(spl.t_min()) - L(t0)), 0, det);
    rep.judge(T + ".t_max", st, fabsl(L(spl.t_max()) - L(tmax)), 0, det);
    rep.require(T + ".ctrl_pts_kept", st, spl.ctrl_pts().size() == size_t(N) && spl.dt() == dt, det);

    L vscale = 1;
    for (int i = 1; i < N; ++i) vscale = std::max(vscale, orc::maxabs(orc::log_ref(l, orc::inv(cl[size_t(i - 1)]) * cl[size_t(i)])));
    const L vs1 = vscale / L(dt), vs2 = vscale * vscale / (L(dt) * L(dt));

    // ---- evaluation times: random interior, every knot +- 1 ulp, ends, outside
    std::vector<double> times;
    for (int k = 0; k < 12; ++k) times.push_back(r.range(t0, tmax));
    for (int j = 0; j <= N - K; ++j) {
      const double tk0 = t0 + double(j) * dt;
      times.push_back(tk0);
      times.push_back(std::nextafter(tk0, 1e300));
      times.push_back(std::nextafter(tk0, -1e300));
    }
    const double span = tmax - t0;
    times.push_back(t0 - 1e-9 * span);
    times.push_back(tmax + 1e-9 * span);
    times.push_back(t0 - r.uni() * 1e3 * span);
    times.push_back(tmax + r.uni() * 1e3 * span);
    times.push_back(t0 - 0.5 * dt);
    times.push_back(t0 - 1.5 * dt);

    Tangent velS, accS;
    // reference end values: evaluations far outside on either side (spl(t_max) itself may fall a rounding error inside the last interval)
    const G g_tmin = spl(t0 - 10 * span - 1), g_tmax = spl(tmax + 10 * span + 1);
    for (double t : times) {
      tcur = t;
      const G g = spl(t, velS, accS);
      {
        // the optional outputs do not influence the value (or each other)
        Tangent v1;
        const G g0 = spl(t), g1 = spl(t, v1);
        L w = std::max(orc::maxabs(rawL(g0) - rawL(g)), orc::maxabs(rawL(g1) - rawL(g)));
        w   = std::max(w, orc::maxabs(toL(v1) - toL(velS)));
        rep.judge(T + ".optional_outputs_consistent", st, w == w ? w : INFINITY, 0, det);
      }
      const OraclePoint o = bspline_oracle(l, K, Bcum, t0, dt, cl, t);
      rep.judge(T + ".value", st, orc::err_rel1(elemL(l, g), o.p.G), 1e-9L, det);
      const bool inside = t >= t0 && t < tmax;
      if (inside) {
        // orders that are continuous are unambiguous; at a knot the discontinuous ones may come from either side
        auto judge_der = [&](const char * nm, int order, const Vec & got, const Vec & ref, auto pick, L scale) {
          L e = orc::maxabs(got - ref);
          if (o.on_knot && order >= K) {
            const OraclePoint ol = bspline_oracle(l, K, Bcum, t0, dt, cl, t, -1), orr = bspline_oracle(l, K, Bcum, t0, dt, cl, t, +1);
            e = std::min({e, orc::maxabs(got - pick(ol)), orc::maxabs(got - pick(orr))});
          }
          rep.judge(T + "." + nm, st, e / scale, 1e-8L, det);
        };
        judge_der("vel", 1, toL(velS), o.p.vel, [](const OraclePoint & q) { return q.p.vel; }, vs1);
        judge_der("acc", 2, toL(accS), o.p.acc, [](const OraclePoint & q) { return q.p.acc; }, std::max(vs2, vs1));
      } else {
        // clearly outside the range (beyond the rounding of t_max = t0 + (N-K) dt itself): exactly the end values
        const L sl = (L(t) - L(t0)) / L(dt);
        if (sl < -1e-6L || sl > L(N - K) + 1e-6L) {
          const G & endv = t < t0 ? g_tmin : g_tmax;
          rep.judge(T + ".outside_is_end_value", st, orc::maxabs(rawL(g) - rawL(endv)), 0, det);
        }
      }
    }
    // ---- C^(K-1): continuous orders agree from both sides of every interior knot
    for (int j = 1; j < N - K; ++j) {
      const double tk0 = t0 + double(j) * dt;
      const double ta = std::nextafter(tk0, -1e300), tb = std::nextafter(tk0, 1e300);
      tcur = tk0;
      Tangent va, aa, vb, ab;
      const G ga = spl(ta, va, aa), gb = spl(tb, vb, ab);
      const L gap = L(tb) - L(ta);  // two ulps of t
      const L lip = 1e-12L;
      // a continuous quantity may differ by (next derivative) * gap + rounding
      rep.judge(T + ".continuity.value", st, orc::maxabs(elemL(l, ga) - elemL(l, gb)), vs1 * gap * 4 + lip * 10, det);
      if (K >= 2) rep.judge(T + ".continuity.vel", st, orc::maxabs(toL(va) - toL(vb)) / vs1, (vs2 / vs1) * gap * 8 + 1e-9L, det);
      if (K >= 3) rep.judge(T + ".continuity.acc", st, orc::maxabs(toL(aa) - toL(ab)) / std::max(vs2, vs1), (8 / L(dt)) * gap + 1e-8L, det);
    }
    // ---- local support: moving control point i changes the curve only on knot intervals i-K .. i
    {
      const int i = r.below(N);
      std::vector<G> c2 = ctrl;
      Vec dv            = gen_tangent<S>(l, r, R_MODERATE, T_SMALL);
      c2[size_t(i)]     = smooth::rplus(c2[size_t(i)], dv.template cast<S>());
      const smooth::BSpline<K, G> spl2(t0, dt, c2);
      bool unaffected_equal = true, affected_changed = false;
      for (int j = 0; j < N - K; ++j) {
        const double t = t0 + (double(j) + 0.37) * dt;
        tcur           = t;
        Tangent v1, a1, v2, a2;
        const G x1 = spl(t, v1, a1), x2 = spl2(t, v2, a2);
        const bool same = orc::maxabs(rawL(x1) - rawL(x2)) == 0 && (toL(v1) - toL(v2)).norm() == 0 && (toL(a1) - toL(a2)).norm() == 0;
        const bool in_support = j >= i - K && j <= i;
        if (!in_support && !same) unaffected_equal = false;
        if (in_support && !same) affected_changed = true;
      }
      rep.require(T + ".local_support.unaffected_intervals_bit_equal", st, unaffected_equal, det);
      rep.require(T + ".local_support.some_supported_interval_changes", st, affected_changed || dv.norm() == 0, det);
    }
    // ---- constants are reproduced
    {
      std::vector<G> cc(size_t(N), ctrl[0]);
      const smooth::BSpline<K, G> splc(t0, dt, cc);
      L wv = 0, wd = 0;
      for (int k = 0; k < 8; ++k) {
        const double t = r.range(t0 - 0.2 * span, tmax + 0.2 * span);
        tcur           = t;
        Tangent v1, a1;
        const G x = splc(t, v1, a1);
        wv        = std::max(wv, orc::maxabs(elemL(l, x) - cl[0]) / std::max<L>(1, orc::maxabs(cl[0])));
        wd        = std::max({wd, orc::maxabs(toL(v1)) * L(dt), orc::maxabs(toL(a1)) * L(dt) * L(dt)});
      }
      rep.judge(T + ".constant.value", st, wv, 1e-14L, det);
      rep.judge(T + ".constant.zero_derivatives", st, wd, 1e-13L, det);
    }
    // ---- left equivariance
    {
      const G h = random_elem<G>(l, r);
      std::vector<G> ch;
      for (auto & g : ctrl) ch.push_back(smooth::composition(h, g));
      const smooth::BSpline<K, G> splh(t0, dt, ch);
      const Mat Hm = elemL(l, h);
      for (int k = 0; k < 6; ++k) {
        const double t = r.range(t0, tmax);
        tcur           = t;
        Tangent v1, a1, v2, a2;
        const G x1 = spl(t, v1, a1), x2 = splh(t, v2, a2);
        rep.judge(T + ".equivariance.value", st, orc::err_rel1(elemL(l, x2), Hm * elemL(l, x1)), 1e-9L, det);
        rep.judge(T + ".equivariance.vel", st, orc::maxabs(toL(v1) - toL(v2)) / vs1, 1e-8L, det);
        rep.judge(T + ".equivariance.acc", st, orc::maxabs(toL(a1) - toL(a2)) / std::max(vs2, vs1), 1e-8L, det);
      }
    }
  });
}

int main(int argc, char ** argv)
{
  Args args = parse_args(argc, argv);
  Report rep(args);
  using namespace smooth;
  using V3d = Eigen::Vector3d;
  using B2  = Bundle<SO3d, Eigen::Vector2d>;
#if TS == 0
  bspline_monitor<1, SE3d>(rep);
  bspline_monitor<3, SE3d>(rep);
  bspline_monitor<5, SE3d>(rep);
  bspline_monitor<3, SO3d>(rep);
  bspline_monitor<2, SE2d>(rep);
  bspline_monitor<1, V3d>(rep);
  bspline_monitor<3, B2>(rep);
#else
  bspline_monitor<2, SE3d>(rep);
  bspline_monitor<4, SE3d>(rep);
  bspline_monitor<6, SE3d>(rep);
  bspline_monitor<6, SO3d>(rep);
  bspline_monitor<4, SE2d>(rep);
  bspline_monitor<5, V3d>(rep);
#endif
  rep.write();
  return 0;
}
