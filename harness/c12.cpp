// Monitor C12: Spline construction, concatenation and cropping preserve the curve.
// History monitor: random programs over a register file of splines; every library object is shadowed by an
// executable model (expression tree) that applies the specification recursively in long double.
#include "harness/spline_oracle.hpp"

#include <smooth/spline/spline.hpp>

using namespace vh;

#ifndef TS
#define TS 0
#endif

static long NQ(const Report & rep, long quick, long thorough) { return rep.args.tier ? thorough : quick; }

template<typename P>
static Mat elemL(const Layout & l, const P & p)
{
  if constexpr (smooth::MatrixType<P>) return l.matrix(toL(p));
  else return l.matrix(toL(p.coeffs()));
}

// ------------------------------------------------------------------ executable model
struct Ev
{
  Mat G;
  Vec vel, acc;
};

struct Node;
using NodeP = std::shared_ptr<const Node>;
struct Node
{
  enum Kind { Empty, Base, CLocal, CGlobal, Crop } kind = Empty;
  // Base
  L T = 0;
  std::vector<Vec> V;
  Mat ga;  // Base / Empty start value
  // composite
  NodeP a, b;
  L ta = 0, tb = 0;  // crop interval (already clamped)
  bool localize = true;
  std::string desc;
};

struct Model
{
  const Layout & l;
  Mat Bcum;
  int K;
  Model(const Layout & ll, int k) : l(ll), Bcum(cumulative(bernstein_matrix(k))), K(k) {}

  L tmax(const NodeP & n) const
  {
    switch (n->kind) {
      case Node::Empty: return 0;
      case Node::Base: return n->T;
      case Node::CLocal:
      case Node::CGlobal: return tmax(n->a) + tmax(n->b);
      case Node::Crop: return n->tb - n->ta;
    }
    return 0;
  }
  void knots(const NodeP & n, L off, std::vector<L> & out) const
  {
    switch (n->kind) {
      case Node::Empty: break;
      case Node::Base:
        out.push_back(off);
        out.push_back(off + n->T);
        break;
      case Node::CLocal:
      case Node::CGlobal:
        knots(n->a, off, out);
        knots(n->b, off + tmax(n->a), out);
        break;
      case Node::Crop: {
        std::vector<L> in;
        knots(n->a, 0, in);
        out.push_back(off);
        out.push_back(off + n->tb - n->ta);
        for (L k : in)
          if (k > n->ta && k < n->tb) out.push_back(off + k - n->ta);
        break;
      }
    }
  }
  // number of polynomial segments
  int segments(const NodeP & n) const
  {
    std::vector<L> k;
    knots(n, 0, k);
    std::sort(k.begin(), k.end());
    int cnt = 0;
    for (size_t i = 1; i < k.size(); ++i)
      if (k[i] - k[i - 1] > 0) ++cnt;
    return cnt;
  }
  // a crop boundary that coincides (within rounding) with a junction of the cropped curve: whether a degenerate
  // segment of rounding-level length survives depends on the last bit of the library's knot arithmetic
  bool ambiguous_size(const NodeP & n, L scale) const
  {
    switch (n->kind) {
      case Node::Empty:
      case Node::Base: return false;
      case Node::CLocal:
      case Node::CGlobal: return ambiguous_size(n->a, scale) || ambiguous_size(n->b, scale);
      case Node::Crop: {
        std::vector<L> in;
        knots(n->a, 0, in);
        for (L k : in)
          if ((fabsl(k - n->ta) < 1e-9L * scale && k > 0) || (fabsl(k - n->tb) < 1e-9L * scale && k < tmax(n->a))) return true;
        return ambiguous_size(n->a, scale);
      }
    }
    return false;
  }
  Ev constant(const Mat & G) const { return Ev{G, Vec::Zero(l.dof), Vec::Zero(l.dof)}; }

  // evaluate at time t; side decides which piece is used exactly at (or within tie of) an internal junction
  // eside: which one-sided value x1(t1) takes in a local concatenation when x1 ends on a jump (defaults to side)
  Ev eval(const NodeP & n, L t, int side, L tie, int eside = 99) const
  {
    if (eside == 99) eside = side;
    switch (n->kind) {
      case Node::Empty: return constant(n->ga);
      case Node::Base: {
        if (t < 0) return constant(n->ga);
        if (t > n->T) {
          const CurvePoint p = cspline_oracle(l, Bcum, 1, n->V);
          return constant(n->ga * p.G);
        }
        const CurvePoint p = cspline_oracle(l, Bcum, t / n->T, n->V);
        return Ev{n->ga * p.G, p.vel / n->T, p.acc / (n->T * n->T)};
      }
      case Node::CLocal:
      case Node::CGlobal: {
        const L t1 = tmax(n->a);
        bool left  = t < t1;
        if (fabsl(t - t1) <= tie) left = side < 0;
        if (tmax(n->a) == 0 && n->a->kind == Node::Empty) left = false;
        if (left) return eval(n->a, std::min(t, t1), side, tie, eside);
        Ev e = eval(n->b, std::max<L>(0, t - t1), side, tie, eside);
        // x1(t1) is two-valued when x1 ends on a junction with a jump (e.g. a crop ending on a concat_global knot): the
        // library uses end(), which holds the right value; the global `side` selects the variant and both are accepted
        if (n->kind == Node::CLocal) e.G = eval(n->a, t1, eside, tie, eside).G * e.G;
        return e;
      }
      case Node::Crop: {
        const L len = n->tb - n->ta;
        const L tt  = std::min(std::max<L>(t, 0), len);
        // a crop boundary may coincide with a junction of the inner curve: there the specification x(ta + t) is
        // two-valued (the library uses the right value for start()/end() and the inside value when evaluating),
        // so the caller's side decides and both are accepted
        Ev e = eval(n->a, n->ta + tt, side, tie, eside);
        if (n->localize) e.G = orc::inv(eval(n->a, n->ta, +1, tie, eside).G) * e.G;
        if (t < 0 || t > len) {
          e.vel.setZero();
          e.acc.setZero();
        }
        return e;
      }
    }
    return constant(orc::eye(l.dim));
  }
  // ---- set-valued semantics. Where pieces meet with a jump (a local concatenation whose second operand does not
  // start at the identity, a global concatenation, crop boundaries that fall on such junctions, zero-length operands)
  // the specification x(t) is two-valued, and a program can nest several such places (x1.end() of a curve that ends on
  // a jump is used by a later concat_local, ...). The library may legitimately pick either one-sided value at each of
  // them independently, so the model returns every combination (deduplicated; a single element wherever the curve is
  // continuous) and the monitor asks that the library value is one of them.
  static bool same(const Ev & a, const Ev & b)
  {
    const L s = 1 + orc::maxabs(a.G);
    return orc::maxabs(a.G - b.G) <= 1e-13L * s && orc::maxabs(a.vel - b.vel) <= 1e-12L * (1 + orc::maxabs(a.vel))
        && orc::maxabs(a.acc - b.acc) <= 1e-12L * (1 + orc::maxabs(a.acc));
  }
  static constexpr size_t CAP = 2048;
  mutable bool overflow       = false;  // a candidate set was truncated: the evaluation is not judged (counted)
  void push(std::vector<Ev> & out, const Ev & e) const
  {
    for (const Ev & o : out)
      if (same(o, e)) return;
    if (out.size() < CAP) out.push_back(e);
    else overflow = true;
  }
  std::vector<Ev> eval_set(const NodeP & n, L t, L tie) const
  {
    std::vector<Ev> out;
    switch (n->kind) {
      case Node::Empty: out.push_back(constant(n->ga)); break;
      case Node::Base: out.push_back(eval(n, t, 0, 0)); break;
      case Node::CLocal:
      case Node::CGlobal: {
        const L t1 = tmax(n->a);
        bool left = t < t1, right = !left;
        if (fabsl(t - t1) <= tie) left = right = true;
        if (t1 == 0 && segments(n->a) == 0) { left = false; right = true; }
        if (left)
          for (const Ev & e : eval_set(n->a, std::min(t, t1), tie)) push(out, e);
        if (right) {
          const std::vector<Ev> eb = eval_set(n->b, std::max<L>(0, t - t1), tie);
          if (n->kind == Node::CGlobal) {
            for (const Ev & e : eb) push(out, e);
          } else {
            const std::vector<Ev> ea = eval_set(n->a, t1, tie);  // candidates for x1.end()
            for (const Ev & a : ea)
              for (Ev e : eb) {
                e.G = a.G * e.G;
                push(out, e);
              }
          }
        }
        break;
      }
      case Node::Crop: {
        const L len = n->tb - n->ta;
        const L tt  = std::min(std::max<L>(t, 0), len);
        std::vector<Ev> in = eval_set(n->a, n->ta + tt, tie);
        if (t < 0 || t > len)
          for (Ev & e : in) {
            e.vel.setZero();
            e.acc.setZero();
          }
        if (!n->localize) {
          for (const Ev & e : in) push(out, e);
        } else {
          for (const Ev & s0 : eval_set(n->a, n->ta, tie))
            for (Ev e : in) {
              e.G = orc::inv(s0.G) * e.G;
              push(out, e);
            }
        }
        break;
      }
    }
    return out;
  }
  // smallest distance of a library value to the candidate set (and the candidate that attains it)
  L dist(const Mat & g, const std::vector<Ev> & c, const Ev ** best = nullptr) const
  {
    L d = INFINITY;
    for (const Ev & e : c) {
      const L x = orc::err_rel1(g, e.G);
      if (x < d) {
        d = x;
        if (best) *best = &e;
      }
    }
    return d;
  }
  Mat end_value(const NodeP & n) const { return eval(n, tmax(n), -1, 0).G; }
  Mat start_value(const NodeP & n) const { return eval(n, 0, +1, 0).G; }
};

template<int K, typename G>
struct Reg
{
  smooth::Spline<K, G> lib;
  NodeP model;
};

template<int K, typename G>
static void spline_monitor(Report & rep)
{
  using S             = double;
  constexpr int D     = smooth::Dof<G>;
  using Tangent       = Eigen::Matrix<S, D, 1>;
  const LayoutP lp    = TI<G>::layout();
  const Layout & l    = *lp;
  const std::string T = TI<G>::name() + ".K" + std::to_string(K);
  const Model M(l, K);  // (overflow flag is mutable)

  auto rand_tangent = [&](Rng & r, double sc) {
    Vec v = gen_tangent<S>(l, r, r.coin(0.2) ? R_BAND : R_MODERATE, r.coin(0.2) ? T_ZERO : T_SMALL);
    for (int k = 0; k < l.dof; ++k) v(k) = L(S(v(k) * sc));
    return v;
  };
  auto rand_elem = [&](Rng & r) -> G {
    if (r.coin(0.5)) return smooth::Identity<G>();
    if constexpr (smooth::MatrixType<G>) return gen_tangent<S>(l, r, 0, T_SMALL).template cast<S>();
    else return make_elem<G>(gen_coeffs<S>(l, r, R_GENERIC, T_SMALL));
  };

  rep.run_stream(T, NQ(rep, 80, 4000), [&](Rng & r, long) {
    std::vector<Reg<K, G>> regs;
    std::string hist;
    auto det = [&]() { return JObj().str("type", T).str("history", hist).done(); };

    auto make_base = [&]() {
      Reg<K, G> x;
      const double T0 = r.loguni(1e-2, 1e1);
      const G ga      = rand_elem(r);
      const int kind  = r.below(K == 3 ? 4 : 3);
      auto n          = std::make_shared<Node>();
      n->kind         = Node::Base;
      n->T            = T0;
      n->ga           = elemL(l, ga);
      char buf[200];
      if (r.coin(0.08)) {
        // the empty spline that starts (and stays) at ga: a zero-length operand with a non-identity start
        n->kind = Node::Empty;
        n->T    = 0;
        x.lib   = smooth::Spline<K, G>(ga);
        snprintf(buf, sizeof buf, "Empty(ga)");
        rep.count("C12.empty_base");
      } else if (kind == 0) {
        Eigen::Matrix<S, D, K> V;
        for (int j = 0; j < K; ++j) {
          const Vec v = rand_tangent(r, 1.0 / K);
          V.col(j)    = v.template cast<S>();
          n->V.push_back(toL(Tangent(V.col(j))));
        }
        if (r.coin()) x.lib = smooth::Spline<K, G>(T0, V, ga);
        else {
          std::vector<Tangent> vs;
          for (int j = 0; j < K; ++j) vs.push_back(V.col(j));
          x.lib = smooth::Spline<K, G>(T0, vs, ga);
        }
        snprintf(buf, sizeof buf, "Base(T=%.4g)", T0);
      } else if (kind == 1) {
        // ConstantVelocity: specification x(t) = ga exp(t v), i.e. V_j = (T/K) v for the degree-K Bernstein form
        const Vec v      = rand_tangent(r, 1.0 / T0);
        const Tangent vd = v.template cast<S>();
        x.lib            = smooth::Spline<K, G>::ConstantVelocity(vd, T0, ga);
        for (int j = 0; j < K; ++j) n->V.push_back(toL(vd) * (L(T0) / K));
        snprintf(buf, sizeof buf, "ConstantVelocity(T=%.4g)", T0);
      } else if (kind == 2) {
        const Vec d = rand_tangent(r, 1.0);
        const G gb  = smooth::rplus(ga, Tangent(d.template cast<S>()));
        x.lib       = smooth::Spline<K, G>::ConstantVelocityGoal(gb, T0, ga);
        const Vec dd = orc::log_ref(l, orc::inv(n->ga) * elemL(l, gb));
        for (int j = 0; j < K; ++j) n->V.push_back(dd / L(K));
        snprintf(buf, sizeof buf, "ConstantVelocityGoal(T=%.4g)", T0);
      } else {
        if constexpr (K == 3) {
          const Vec d = rand_tangent(r, 1.0), va = rand_tangent(r, 0.5 / T0), vb = rand_tangent(r, 0.5 / T0);
          const G gb       = smooth::rplus(ga, Tangent(d.template cast<S>()));
          const Tangent vad = va.template cast<S>(), vbd = vb.template cast<S>();
          x.lib            = smooth::Spline<K, G>::FixedCubic(gb, vad, vbd, T0, ga);
          // the cubic Bernstein form is determined by the end poses and end body velocities
          const Vec V0 = toL(vad) * L(T0) / 3, V2 = toL(vbd) * L(T0) / 3;
          const Vec V1 = orc::log_ref(l, orc::expm(l.hat(-V0)) * orc::inv(n->ga) * elemL(l, gb) * orc::expm(l.hat(-V2)));
          n->V         = {V0, V1, V2};
          snprintf(buf, sizeof buf, "FixedCubic(T=%.4g)", T0);
          // direct statement of the FixedCubic contract
          Tangent v0, vT;
          const G x0 = x.lib(0., v0), xT = x.lib(T0, vT);
          rep.judge(T + ".FixedCubic.start_pose", "direct", orc::err_rel1(elemL(l, x0), n->ga), 1e-9L, det);
          rep.judge(T + ".FixedCubic.end_pose", "direct", orc::err_rel1(elemL(l, xT), elemL(l, gb)), 1e-9L, det);
          rep.judge(T + ".FixedCubic.start_velocity", "direct", orc::maxabs(toL(v0) - toL(vad)) / std::max<L>(1, orc::maxabs(toL(vad))), 1e-8L, det);
          rep.judge(T + ".FixedCubic.end_velocity", "direct", orc::maxabs(toL(vT) - toL(vbd)) / std::max<L>(1, orc::maxabs(toL(vbd))), 1e-8L, det);
        }
      }
      n->desc = buf;
      x.model = n;
      hist += std::string("r") + std::to_string(regs.size()) + "=" + buf + ";";
      return x;
    };

    auto check = [&](const Reg<K, G> & x, const std::string & what) {
      const L tm = M.tmax(x.model);
      const std::string st = what;
      rep.judge(T + ".t_max", st, fabsl(L(x.lib.t_max()) - tm) / std::max<L>(1e-3L, tm), 1e-12L, det);
      rep.require(T + ".t_min", st, x.lib.t_min() == 0, det);
      rep.require(T + ".empty_iff_zero_size", st, x.lib.empty() == (x.lib.size() == 0), det);
      // start() / end() sit on junctions when a zero-length (empty) operand was concatenated: either one-sided value
      {
        const L tie0 = 4e-15L * std::max<L>(1, tm);
        const Mat sl = elemL(l, x.lib.start()), el_ = elemL(l, x.lib.end());
        L vs0 = 1e-3L;
        for (int k = 0; k < 5; ++k) vs0 = std::max(vs0, orc::maxabs(M.eval(x.model, tm * (k + 0.5L) / 5, 0, 0).vel));
        const L delta = 1e-6L * std::max<L>(tm, 1e-3L), allow = 4 * vs0 * delta;
        M.overflow = false;
        L es = M.dist(sl, M.eval_set(x.model, 0, tie0)), ee = M.dist(el_, M.eval_set(x.model, tm, tie0));
        if (tm > delta) {
          es = std::min(es, std::max<L>(0, M.dist(sl, M.eval_set(x.model, delta, tie0)) - allow));
          ee = std::min(ee, std::max<L>(0, M.dist(el_, M.eval_set(x.model, tm - delta, tie0)) - allow));
        }
        if (getenv("C12_DEBUG") && ee > 1e-9L) {
          const auto cs = M.eval_set(x.model, tm, tie0);
          fprintf(stderr, "[dbg] %s end: %zu candidates, dist %Lg; model kind %d\n", hist.c_str(), cs.size(), M.dist(el_, cs), int(x.model->kind));
          if (x.model->kind == Node::CLocal) {
            const auto ea = M.eval_set(x.model->a, M.tmax(x.model->a), tie0), eb = M.eval_set(x.model->b, M.tmax(x.model->b), tie0);
            fprintf(stderr, "[dbg]  a-end candidates %zu, b-end candidates %zu\n", ea.size(), eb.size());
            for (auto & a : ea) for (auto & b : eb) fprintf(stderr, "[dbg]   product dist %Lg\n", orc::err_rel1(el_, a.G * b.G));
          }
        }
        if (M.overflow) {
          rep.count("C12.candidate_overflow_skipped");
          M.overflow = false;
        } else {
          rep.judge(T + ".start", st, es, 1e-9L, det);
          rep.judge(T + ".end", st, ee, 1e-9L, det);
        }
      }
      std::vector<L> kn;
      M.knots(x.model, 0, kn);
      std::sort(kn.begin(), kn.end());
      // segment count (junctions that coincide within rounding may legitimately merge or split)
      bool crisp = true;
      for (size_t i = 1; i < kn.size(); ++i)
        if (kn[i] - kn[i - 1] > 0 && kn[i] - kn[i - 1] < 1e-9L * std::max<L>(tm, 1e-3L)) crisp = false;
      if (crisp && !M.ambiguous_size(x.model, std::max<L>(tm, 1e-3L))) rep.require(T + ".size", st, long(x.lib.size()) == M.segments(x.model), [&]() {
        return JObj().raw("run", det()).integer("lib_size", (long long)x.lib.size()).integer("model_segments", M.segments(x.model)).done();
      });
      // evaluation times
      std::vector<double> times = {0.0, double(tm), -1.0, double(tm) + 1.0, -1e-12, double(tm) * (1 + 1e-12) + 1e-12};
      for (int k = 0; k < 8; ++k) times.push_back(r.uni() * double(tm));
      for (L k : kn) {
        times.push_back(double(k));
        times.push_back(std::nextafter(double(k), 1e300));
        times.push_back(std::nextafter(double(k), -1e300));
      }
      L vscale = 1e-3L;
      for (int k = 0; k < 5; ++k) {
        const Ev e = M.eval(x.model, tm * (k + 0.5L) / 5, 0, 0);
        vscale     = std::max(vscale, orc::maxabs(e.vel));
      }
      // every segment contributes (a short fast segment between long slow ones sets the scale of the rounding error
      // of (t - t_i) / T_i for all derivatives)
      for (size_t i = 1; i < kn.size(); ++i)
        if (kn[i] > kn[i - 1]) vscale = std::max(vscale, orc::maxabs(M.eval(x.model, (kn[i] + kn[i - 1]) / 2, 0, 0).vel));
      const L tie = 4e-15L * std::max<L>(1, tm);
      for (double t : times) {
        Tangent vel, acc;
        const G g = x.lib(t, vel, acc);
        {
          // the optional outputs do not influence the value (or each other): value-only and value+velocity calls
          Tangent v1;
          const G g0 = x.lib(t), g1 = x.lib(t, v1);
          L w = std::max(orc::maxabs(elemL(l, g0) - elemL(l, g)), orc::maxabs(elemL(l, g1) - elemL(l, g)));
          w   = std::max(w, orc::maxabs(toL(v1) - toL(vel)));
          rep.judge(T + ".optional_outputs_consistent", what, w == w ? w : INFINITY, 0, [&]() { return JObj().raw("run", det()).num("t", t).done(); });
        }
        const bool outside = t < 0 || L(t) > L(x.lib.t_max());
        L dk = 1e300L;
        for (L k : kn) dk = std::min(dk, fabsl(L(t) - k));
        const bool near_knot = dk <= 1e-9L * std::max<L>(tm, 1e-3L);
        auto dt = [&]() { return JObj().raw("run", det()).num("t", t).num("t_max_model", tm).done(); };
        M.overflow = false;
        const std::vector<Ev> cand = M.eval_set(x.model, t, near_knot ? 1e-9L * std::max<L>(tm, 1e-3L) : tie);
        rep.count("C12.candidates_per_evaluation." + std::string(cand.size() == 1 ? "1" : (cand.size() <= 4 ? "2-4" : (cand.size() <= 64 ? "5-64" : "65+"))));
        const Ev * bestp = &cand.front();
        L ev             = M.dist(elemL(l, g), cand, &bestp);
        const Ev el      = *bestp;
        if (near_knot || outside) {
          // several pieces can meet at a junction (crop boundaries on concat_global knots, zero-length operands): the value
          // there must be a one-sided limit of the curve, i.e. agree with the model just left or just right of t
          const L delta = 1e-6L * std::max<L>(tm, 1e-3L), allow = 4 * vscale * delta;
          const L tc    = std::min<L>(std::max<L>(t, 0), tm);
          for (L tt : {tc - delta, tc + delta})
            if (tt >= 0 && tt <= tm)
              ev = std::min(ev, std::max<L>(0, M.dist(elemL(l, g), M.eval_set(x.model, tt, tie)) - allow));
        }
        if (M.overflow) {
          rep.count("C12.candidate_overflow_skipped");
          M.overflow = false;
          continue;
        }
        rep.judge(T + ".value", st + (outside ? ",outside" : (near_knot ? ",knot" : ",interior")), ev, 1e-9L, dt);
        if (outside) {
          rep.judge(T + ".outside_zero_derivatives", st, std::max(orc::maxabs(toL(vel)), orc::maxabs(toL(acc))), 0, dt);
        } else if (!near_knot) {
          rep.judge(T + ".vel", st, orc::maxabs(toL(vel) - el.vel) / vscale, 1e-7L, dt);
          rep.judge(T + ".acc", st, orc::maxabs(toL(acc) - el.acc) / std::max<L>(vscale * vscale, vscale / std::max<L>(tm, 1e-3L) * 10), 1e-7L, dt);
        }
      }
      // arclength on commutative groups (degree 3 only)
      if constexpr (K == 3 && smooth::IsCommutative<G>) {
        for (int q = 0; q < 3; ++q) {
          const double t = q == 0 ? double(tm) : r.uni() * double(tm);
          const Tangent al = x.lib.arclength(t);
          // exact integral of |vel| per component: piecewise quadratics between knots; integrate by fine Gauss on each piece split at roots
          Vec ref = Vec::Zero(D);
          std::vector<L> cuts = {0};
          for (L k : kn)
            if (k > 0 && k < t) cuts.push_back(k);
          cuts.push_back(t);
          std::sort(cuts.begin(), cuts.end());
          for (size_t i = 0; i + 1 < cuts.size(); ++i) {
            const L a = cuts[i], b = cuts[i + 1];
            if (!(b > a)) continue;
            // velocity is a quadratic in t on [a,b]: recover it from three samples, integrate |.| exactly
            const L m = (a + b) / 2, h = (b - a) / 2;
            const Vec v0 = M.eval(x.model, a + (b - a) * 1e-12L, +1, 0).vel, v1 = M.eval(x.model, m, 0, 0).vel, v2 = M.eval(x.model, b - (b - a) * 1e-12L, -1, 0).vel;
            for (int c = 0; c < D; ++c) {
              // q(s) = A s^2 + B s + C on s in [-h, h]
              const L C = v1(c), B = (v2(c) - v0(c)) / (2 * h), A = (v2(c) + v0(c) - 2 * v1(c)) / (2 * h * h);
              std::vector<L> cs = {-h, h};
              if (A == 0) {
                if (B != 0 && fabsl(-C / B) < h) cs.push_back(-C / B);
              } else {
                const L disc = B * B - 4 * A * C;
                if (disc > 0) {
                  const L qq = -(B + (B >= 0 ? 1 : -1) * sqrtl(disc)) / 2;
                  for (L rt : {qq / A, C / qq})
                    if (fabsl(rt) < h) cs.push_back(rt);
                }
              }
              std::sort(cs.begin(), cs.end());
              auto F = [&](L s) { return A * s * s * s / 3 + B * s * s / 2 + C * s; };
              for (size_t w = 0; w + 1 < cs.size(); ++w) ref(c) += fabsl(F(cs[w + 1]) - F(cs[w]));
            }
          }
          rep.judge(T + ".arclength", st, orc::maxabs(toL(al) - ref) / std::max<L>(1, orc::maxabs(ref)), 1e-8L, [&]() { return JObj().raw("run", det()).num("t", t).done(); });
        }
      }
    };

    // ---- the program
    const int nops = 1 + r.below(12);
    regs.push_back(make_base());
    check(regs.back(), "constructor");
    for (int op = 0; op < nops; ++op) {
      const int kind = r.below(8);
      const size_t ia = size_t(r.below(int(regs.size())));
      if (kind == 0 && regs.size() < 5) {
        regs.push_back(make_base());
        check(regs.back(), "constructor");
      } else if (kind == 1 || kind == 2) {
        // concat_local via += or operator+
        const size_t ib = size_t(r.below(int(regs.size())));
        if (M.segments(regs[ia].model) + M.segments(regs[ib].model) > 8) continue;
        auto n  = std::make_shared<Node>();
        n->kind = Node::CLocal;
        n->a    = regs[ia].model;
        n->b    = regs[ib].model;
        Reg<K, G> x;
        // the operand may be the destination itself (x += x repeats a motion): no copy of the operand is made then
        const bool self = ia == ib && r.coin(0.6);
        if (self) {
          x.lib = regs[ia].lib;
          if (kind == 1) x.lib += x.lib;
          else x.lib.concat_local(x.lib);
          rep.count("C12.self_concat_local");
        } else if (kind == 1) {
          x.lib = regs[ia].lib;
          x.lib += regs[ib].lib;
        } else {
          x.lib = regs[ia].lib + regs[ib].lib;
        }
        x.model = n;
        const size_t dst = regs.size() < 5 ? regs.size() : ia;
        hist += "r" + std::to_string(dst) + "=r" + std::to_string(ia) + (self ? "+=self:r" : (kind == 1 ? "+=r" : "+r")) + std::to_string(ib) + ";";
        if (dst == regs.size()) regs.push_back(x);
        else regs[dst] = x;
        check(regs[dst], self ? "concat_local.self" : "concat_local");
      } else if (kind == 3) {
        const size_t ib = size_t(r.below(int(regs.size())));
        if (M.segments(regs[ia].model) + M.segments(regs[ib].model) > 8) continue;
        auto n  = std::make_shared<Node>();
        n->kind = Node::CGlobal;
        n->a    = regs[ia].model;
        n->b    = regs[ib].model;
        Reg<K, G> x;
        x.lib = regs[ia].lib;
        const bool self = ia == ib && r.coin(0.6);
        if (self) {
          x.lib.concat_global(x.lib);
          rep.count("C12.self_concat_global");
        } else {
          x.lib.concat_global(regs[ib].lib);
        }
        x.model = n;
        hist += "r" + std::to_string(ia) + ".concat_global(" + (self ? "self:r" : "r") + std::to_string(ib) + ");";
        regs[ia] = x;
        check(regs[ia], self ? "concat_global.self" : "concat_global");
      } else if (kind == 7) {
        // make_local(): y(t) = x(0)^-1 x(t), i.e. the localised crop over the whole range
        const L tm = M.tmax(regs[ia].model);
        Reg<K, G> x;
        x.lib = regs[ia].lib;
        x.lib.make_local();
        auto n = std::make_shared<Node>();
        if (!(tm > 0)) {
          n->kind = Node::Empty;
          n->ga   = orc::eye(l.dim);
        } else {
          n->kind     = Node::Crop;
          n->a        = regs[ia].model;
          n->ta       = 0;
          n->tb       = tm;
          n->localize = true;
        }
        x.model = n;
        hist += "r" + std::to_string(ia) + ".make_local();";
        regs[ia] = x;
        check(regs[ia], "make_local");
      } else if (kind >= 4 && kind <= 6) {
        // crop: interval kinds (first segment, later segment, on a knot, ending on a knot, zero length, out of range)
        const L tm = M.tmax(regs[ia].model);
        std::vector<L> kn;
        M.knots(regs[ia].model, 0, kn);
        std::sort(kn.begin(), kn.end());
        double ta, tb;
        const int ik = r.below(8);
        auto knot    = [&]() { return kn.empty() ? 0.0 : double(kn[size_t(r.below(int(kn.size())))]); };
        if (ik == 0) {
          ta = r.uni() * double(tm);
          tb = r.uni() * double(tm);
          if (tb < ta) std::swap(ta, tb);
        } else if (ik == 1) {
          ta = knot();
          tb = ta + r.uni() * (double(tm) - ta);
        } else if (ik == 2) {
          tb = knot();
          ta = r.uni() * tb;
        } else if (ik == 3) {
          ta = tb = r.uni() * double(tm);
        } else if (ik == 4) {
          ta = -r.uni();
          tb = double(tm) + r.uni();
        } else if (ik == 5) {
          ta = knot();
          tb = knot();
          if (tb < ta) std::swap(ta, tb);
        } else {
          ta = 0.5 * double(tm) + 0.5 * r.uni() * double(tm);  // starts in the second half (later segments)
          tb = ta + r.uni() * (double(tm) - ta);
        }
        const bool loc = r.coin(0.6);
        Reg<K, G> x;
        x.lib = regs[ia].lib.crop(ta, tb, loc);
        const L cta = std::max<L>(ta, 0), ctb = std::min<L>(tb, tm);
        if (!(ctb > cta)) {
          auto n  = std::make_shared<Node>();
          n->kind = Node::Empty;
          n->ga   = orc::eye(l.dim);
          x.model = n;
        } else {
          auto n      = std::make_shared<Node>();
          n->kind     = Node::Crop;
          n->a        = regs[ia].model;
          n->ta       = cta;
          n->tb       = ctb;
          n->localize = loc;
          x.model     = n;
        }
        char buf[160];
        snprintf(buf, sizeof buf, "r%zu=r%zu.crop(%.17g,%.17g,%s)[kind%d];", ia, ia, ta, tb, loc ? "local" : "global", ik);
        hist += buf;
        regs[ia] = x;
        check(regs[ia], std::string("crop.") + (ik == 3 ? "zero_length" : (ik == 4 ? "out_of_range" : (ik == 6 ? "later_segment" : (ik == 0 ? "random" : "on_knot")))) + (loc ? ",local" : ",global"));
      }
    }
    rep.note_input(hash_str(hist), true);
  });
}

int main(int argc, char ** argv)
{
  Args args = parse_args(argc, argv);
  Report rep(args);
  using namespace smooth;
  using V2d = Eigen::Vector2d;
#if TS == 0
  spline_monitor<3, SE3d>(rep);
  spline_monitor<3, V2d>(rep);
  spline_monitor<1, SE3d>(rep);
  spline_monitor<2, SE2d>(rep);
  spline_monitor<3, SO2d>(rep);
#else
  spline_monitor<3, SO3d>(rep);
  spline_monitor<3, SE2d>(rep);
  spline_monitor<4, SO3d>(rep);
  spline_monitor<5, SE3d>(rep);
  spline_monitor<5, V2d>(rep);
#endif
  rep.write();
  return 0;
}
