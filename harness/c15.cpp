// Monitor C15: representation invariants and accuracy survive any history of operations.
// Shadow execution: every program over a register file of library elements is replayed on long-double
// matrices; after EVERY operation the touched element must be finite, unit (quaternion / complex part),
// canonical (SO3 q_w >= 0) and within (n+1) 1e-13 of the shadow. The odeint adaptor's intermediate stage
// values are observed through the SMOOTH_VERIF hook.
#include <boost/numeric/odeint.hpp>

#include "harness/gen.hpp"

#include <smooth/compat/odeint.hpp>

using namespace vh;

#ifndef TS
#define TS 0
#endif

static long NQ(const Report & rep, long quick, long thorough) { return rep.args.tier ? thorough : quick; }

// representation constraint violation of a coefficient vector for a layout: max | |q| - 1 |
static L unit_violation(const Layout & l, const Vec & c, bool & canonical)
{
  L w       = 0;
  canonical = true;
  for (int s : l.quat) {
    w = std::max(w, fabsl(c.segment(s, 4).norm() - 1));
    if (!(c(s + 3) >= 0)) canonical = false;
  }
  for (int s : l.ucomplex) w = std::max(w, fabsl(c.segment(s, 2).norm() - 1));
  return w;
}

// hook state: stage values seen inside boost's steppers
struct StageMon
{
  const Layout * l = nullptr;
  long seen        = 0;
  L worst_unit     = 0;
  bool finite = true, canonical = true;
  std::function<Vec(const void *)> coeffs;
};
static thread_local StageMon * g_stage = nullptr;
static void stage_cb(const void * y, const std::type_info &)
{
  if (!g_stage) return;
  const Vec c = g_stage->coeffs(y);
  ++g_stage->seen;
  bool can;
  g_stage->worst_unit = std::max(g_stage->worst_unit, unit_violation(*g_stage->l, c, can));
  g_stage->canonical  = g_stage->canonical && can;
  g_stage->finite     = g_stage->finite && c.allFinite();
}

template<typename G>
struct Shadowed
{
  G lib;
  Mat M;
  // number of operations that contributed to this element counted with multiplicity (size of its expression tree):
  // a program that re-uses a register as both operands (x = x * x) doubles every first-order error term per step, so
  // the "(n+1)" bounds of the statement are applied with n = max(position in the program, this count) - see DESIGN.md
  double ops = 0;
  // upper bound of |log scale| of the exact element for groups with a scale part (C1): a program that keeps squaring
  // leaves the double range in exact arithmetic as well, which is not what the statement is about - such registers are re-seeded
  double lscale = 0;
};

template<typename G>
static void history_monitor(Report & rep)
{
  using S             = typename G::Scalar;
  using Tangent       = Eigen::Matrix<S, G::Dof, 1>;
  const LayoutP lp    = TI<G>::layout();
  const Layout & l    = *lp;
  const std::string T = TI<G>::name();
  static_assert(std::is_same_v<S, double>, "bounds of the statement are for double precision");

  auto fresh = [&](Rng & r) {
    static const int am[] = {R_ZERO, R_TINY, R_BAND, R_GENERIC, R_GENERIC, R_NEARPI, R_EXACTPI};
    Shadowed<G> x;
    const int src = r.below(4);
    if (src == 0) x.lib = G::Identity();
    else if (src == 1) {
      std::srand(unsigned(r.next()));
      x.lib = G::Random();
    } else if (src == 2) x.lib = G::exp(gen_tangent<S>(l, r, am[r.below(7)], T_SMALL).template cast<S>());
    else x.lib = make_elem<G>(gen_coeffs<S>(l, r, am[r.below(7)], T_SMALL));
    x.M = l.matrix(toL(x.lib.coeffs()));
    for (int sidx : l.scomplex) x.lscale = std::max<double>(x.lscale, std::abs(std::log(double(x.lib.coeffs().segment(sidx, 2).norm()))));
    return x;
  };
  auto fresh_tangent = [&](Rng & r) {
    static const int rm[] = {R_ZERO, R_TINY, R_BAND, R_GENERIC, R_GENERIC, R_NEARPI, R_BEYOND};
    Vec a = gen_tangent<S>(l, r, rm[r.below(7)], r.coin(0.3) ? T_ZERO : T_SMALL);
    for (int i : l.logscale) a(i) = L(S(a(i) / 30));  // keep C1 scales bounded along long histories
    return a;
  };

  auto tangent_lscale = [&](const Vec & a) {
    double v = 0;
    for (int q : l.logscale) v += std::abs(double(a(q)));
    return v;
  };
  // after-operation check
  auto check = [&](const Shadowed<G> & x, long n, const std::string & op, const std::string & st, const std::function<std::string()> & det) {
    const Vec c = toL(x.lib.coeffs());
    bool can;
    const L uv = unit_violation(l, c, can);
    rep.require(T + ".finite." + op, st, c.allFinite(), det);
    rep.judge(T + ".unit." + op, st, uv / L(n + 1), 1e-14L, det);
    rep.require(T + ".canonical." + op, st, can, det);
    rep.judge(T + ".accuracy." + op, st, orc::err_rel1(l.matrix(c), x.M) / L(n + 1), 1e-13L, det);
  };

  // ---- random programs over a register file
  rep.run_stream(T + ".programs", NQ(rep, 250, 8000), [&](Rng & r, long) {
    std::vector<Shadowed<G>> R;
    std::vector<Vec> Tn;
    for (int i = 0; i < 8; ++i) R.push_back(fresh(r));
    for (int i = 0; i < 4; ++i) Tn.push_back(fresh_tangent(r));
    std::string hist;
    auto det = [&]() { return JObj().str("type", T).str("history", hist).done(); };
    const int len = 1 + r.below(r.coin(0.2) ? 200 : 30);
    for (int n = 0; n < len; ++n) {
      const int i = r.below(8), j = r.below(8), k = r.below(8), t = r.below(4);
      const int op = r.below(9);
      std::string name;
      switch (op) {
        case 0:
          {
            const double c   = R[size_t(j)].ops + R[size_t(k)].ops + 1;
            R[size_t(i)].lib = R[size_t(j)].lib * R[size_t(k)].lib;
            R[size_t(i)].M   = Mat(R[size_t(j)].M * R[size_t(k)].M);
            const double ls  = R[size_t(j)].lscale + R[size_t(k)].lscale;
            R[size_t(i)].ops = c;
            R[size_t(i)].lscale = ls;
          }
          name             = "compose";
          break;
        case 1:
          R[size_t(i)].lib = R[size_t(j)].lib.inverse();
          R[size_t(i)].M   = orc::inv(R[size_t(j)].M);
          R[size_t(i)].ops = R[size_t(j)].ops + 1;
          R[size_t(i)].lscale = R[size_t(j)].lscale;
          name             = "inverse";
          break;
        case 2:
          R[size_t(i)].lib = G::exp(Tangent(Tn[size_t(t)].template cast<S>()));
          R[size_t(i)].M   = orc::exp_ref(l, Tn[size_t(t)]);
          R[size_t(i)].ops = 1;
          R[size_t(i)].lscale = tangent_lscale(Tn[size_t(t)]);
          name             = "exp";
          break;
        case 3:
          R[size_t(i)].lib = R[size_t(j)].lib + Tangent(Tn[size_t(t)].template cast<S>());
          R[size_t(i)].M   = Mat(R[size_t(j)].M * orc::exp_ref(l, Tn[size_t(t)]));
          R[size_t(i)].ops = R[size_t(j)].ops + 1;
          R[size_t(i)].lscale = R[size_t(j)].lscale + tangent_lscale(Tn[size_t(t)]);
          name             = "rplus";
          break;
        case 4:
          R[size_t(i)].M = Mat(R[size_t(i)].M * R[size_t(j)].M);  // before the library call (j may equal i)
          R[size_t(i)].lib *= R[size_t(j)].lib;  // j may equal i: the operand then is the destination itself
          R[size_t(i)].ops = R[size_t(i)].ops + R[size_t(j)].ops + 1;
          R[size_t(i)].lscale = R[size_t(i)].lscale + R[size_t(j)].lscale;
          name = "*=";
          break;
        case 5:
          R[size_t(i)].lib += Tangent(Tn[size_t(t)].template cast<S>());
          R[size_t(i)].M = Mat(R[size_t(i)].M * orc::exp_ref(l, Tn[size_t(t)]));
          R[size_t(i)].ops += 1;
          R[size_t(i)].lscale += tangent_lscale(Tn[size_t(t)]);
          name           = "+=";
          break;
        case 6:
          R[size_t(i)].lib = R[size_t(j)].lib.template cast<S>();
          R[size_t(i)].M   = R[size_t(j)].M;
          R[size_t(i)].ops = R[size_t(j)].ops + 1;
          R[size_t(i)].lscale = R[size_t(j)].lscale;
          name             = "cast";
          break;
        case 7:
          Tn[size_t(t)] = fresh_tangent(r);
          continue;
        default: {
          // lifts / projections where they exist: project(lift(x)) is the same element
          if constexpr (requires(G g) { g.lift_se3(); }) {
            R[size_t(i)].lib = R[size_t(j)].lib.lift_se3().project_se2();
            R[size_t(i)].M   = R[size_t(j)].M;
            R[size_t(i)].ops = R[size_t(j)].ops + 2;
            R[size_t(i)].lscale = R[size_t(j)].lscale;
            name             = "project(lift)";
          } else if constexpr (requires(G g) { g.lift_so3(); }) {
            R[size_t(i)].lib = R[size_t(j)].lib.lift_so3().project_so2();
            R[size_t(i)].M   = R[size_t(j)].M;
            R[size_t(i)].ops = R[size_t(j)].ops + 2;
            R[size_t(i)].lscale = R[size_t(j)].lscale;
            name             = "project(lift)";
          } else {
            R[size_t(i)].lib = R[size_t(j)].lib * R[size_t(j)].lib.inverse();
            R[size_t(i)].M   = orc::eye(l.dim);
            R[size_t(i)].ops = 2 * R[size_t(j)].ops + 2;
            R[size_t(i)].lscale = 0;
            name             = "x*inverse(x)";
          }
        }
      }
      if (hist.size() < 600) hist += name + "(" + std::to_string(i) + "," + std::to_string(j) + "," + std::to_string(k) + ");";
      {
        const bool amplified = R[size_t(i)].ops > double(n + 1);
        if (amplified) rep.count("C15.programs.reuse_amplified_results");
        if (R[size_t(i)].lscale > 150) {
          // exact scale beyond exp(+-150): the next product could leave the double range in exact arithmetic too
          R[size_t(i)] = fresh(r);
          rep.count("C15.programs.reseeded_scale_range");
          continue;
        }
        if (R[size_t(i)].ops > 1e6) {
          // the expression tree is too large for any bound to be meaningful: the register is re-seeded
          R[size_t(i)] = fresh(r);
          rep.count("C15.programs.reseeded_after_amplification");
          continue;
        }
        check(R[size_t(i)], std::max<long>(n + 1, long(R[size_t(i)].ops)), name, len <= 30 ? "short_program" : "long_program", det);
      }
    }
    rep.note_input(hash_str(hist) ^ uint64_t(len), true);
    rep.count("C15.operations", len);
  });

  // ---- long homogeneous chains
  rep.run_stream(T + ".chains", NQ(rep, 8, 24), [&](Rng & r, long idx) {
    const long N = rep.args.tier ? 100000 : 1000;
    Shadowed<G> x = fresh(r), g = fresh(r);
    const int kind = int(idx % 4);
    Vec a = fresh_tangent(r);
    if (kind == 3) {
      // half-turn products: the scalar part keeps crossing zero (sign canonicalisation stress)
      Vec ah = Vec::Zero(l.dof);
      for (auto [s, nn] : l.rotblocks) ah.segment(s, nn) = rand_axis(r, nn) * (PI_L - L(r.loguni(1e-9, 1e-3)));
      for (int q = 0; q < l.dof; ++q) ah(q) = L(S(ah(q)));
      g.lib = G::exp(Tangent(ah.template cast<S>()));
      g.M   = orc::exp_ref(l, ah);
    }
    // C1: keep the scale of the step within exp(+-1e-3) so that 1e5 products neither overflow nor underflow
    if (!l.scomplex.empty()) {
      Vec cg = toL(g.lib.coeffs());
      for (int sidx : l.scomplex) {
        const L k = cg.segment(sidx, 2).norm();
        cg.segment(sidx, 2) *= expl(L(r.sym()) * 1e-3L) / k;
      }
      Vec cr(cg.size());
      for (int q = 0; q < cg.size(); ++q) cr(q) = L(S(cg(q)));
      g.lib = make_elem<G>(cr);
      g.M   = l.matrix(cr);
      for (int q : l.logscale) a(q) = L(S(a(q) / 100));
    }
    static const char * names[] = {"chain(x*=g)", "chain(x+=a)", "chain(inverse ping-pong)", "chain(half-turn products)"};
    const std::string name = names[kind];
    auto det = [&]() { return JObj().str("type", T).str("chain", name).integer("N", N).raw("g", hexv(toL(g.lib.coeffs()))).raw("a", hexv(a)).done(); };
    rep.note_input(Report::hash_vec(toL(g.lib.coeffs()), Report::hash_vec(a, uint64_t(kind))), true);
    // rescale the translation-like part of the step so that magnitudes stay moderate over the chain
    for (long n = 1; n <= N; ++n) {
      if (kind == 0 || kind == 3) {
        x.lib *= g.lib;
        x.M = Mat(x.M * g.M);
      } else if (kind == 1) {
        x.lib += Tangent(a.template cast<S>());
        x.M = Mat(x.M * orc::exp_ref(l, a));
      } else {
        x.lib = x.lib.inverse();
        x.M   = orc::inv(x.M);
        if (n % 2 == 0) {
          x.lib *= g.lib;
          x.M = Mat(x.M * g.M);
        }
      }
      // re-orthogonalise the SHADOW's rotation part is never needed in long double over 1e5 steps (drift 1e-14)
      if (n <= 64 || (n & (n - 1)) == 0 || n % 997 == 0 || n == N) check(x, n, name, "n<=" + std::string(n <= 1000 ? "1e3" : "1e5"), det);
    }
    rep.count("C15.operations", N);
  });

  // ---- fixed-step integration of a constant body velocity through the boost::odeint adaptor
  rep.run_stream(T + ".odeint", NQ(rep, 60, 1200), [&](Rng & r, long idx) {
    namespace ode = boost::numeric::odeint;
    Shadowed<G> x0 = fresh(r);
    Vec v          = gen_tangent<S>(l, r, R_MODERATE, T_SMALL);
    for (int i : l.logscale) v(i) = L(S(v(i) / 30));
    const Tangent vs = v.template cast<S>();
    const int steps  = 1 + r.below(rep.args.tier ? 10000 : 300);
    const double dt  = r.loguni(1e-3, 1e-1);
    const auto sys   = [&](const G &, Tangent & d, double) { d = vs; };
    StageMon mon;
    mon.l      = &l;
    mon.coeffs = [](const void * y) { return Vec(toL(static_cast<const G *>(y)->coeffs())); };
    g_stage    = &mon;
    smooth::verif::odeint_state_cb = stage_cb;
    G x = x0.lib;
    std::string stepper;
    auto run = [&](auto st, const char * nm, int how) {
      stepper = nm;
      if (how == 0) ode::integrate_const(st, sys, x, 0., dt * steps, dt);
      else if (how == 1) ode::integrate_n_steps(st, sys, x, 0., dt, size_t(steps));
      else
        for (int k = 0; k < steps; ++k) st.do_step(sys, x, k * dt, dt);
    };
    using State = G;
    using Deriv = Tangent;
    using Alg   = ode::vector_space_algebra;
    const int how = r.below(3);
    switch (idx % 6) {
      case 0: run(ode::euler<State, double, Deriv, double, Alg>(), "euler", how); break;
      case 1: run(ode::runge_kutta4<State, double, Deriv, double, Alg>(), "runge_kutta4", how); break;
      case 2: run(ode::runge_kutta4_classic<State, double, Deriv, double, Alg>(), "runge_kutta4_classic", how); break;
      case 3: run(ode::runge_kutta_cash_karp54<State, double, Deriv, double, Alg>(), "cash_karp54", how); break;
      case 4: run(ode::runge_kutta_dopri5<State, double, Deriv, double, Alg>(), "dopri5", how); break;
      default: run(ode::runge_kutta_fehlberg78<State, double, Deriv, double, Alg>(), "fehlberg78", how); break;
    }
    smooth::verif::odeint_state_cb = nullptr;
    g_stage                        = nullptr;
    // number of time steps actually taken by integrate_const may differ by one due to rounding of t: use the
    // observer-free contract x(T) for integrate_n_steps / do_step, and T = steps*dt within one step for integrate_const
    auto det = [&]() {
      return JObj().str("type", T).str("stepper", stepper).integer("steps", steps).num("dt", dt).integer("how", how).raw("x0", hexv(toL(x0.lib.coeffs()))).raw("v", hexv(v)).done();
    };
    rep.note_input(Report::hash_vec(v, Report::hash_vec(toL(x0.lib.coeffs()), uint64_t(steps))), v.norm() > 0);
    const std::string st = stepper + (how == 0 ? ",integrate_const" : (how == 1 ? ",integrate_n_steps" : ",do_step"));
    const Mat ref = x0.M * orc::exp_ref(l, v * (L(dt) * steps));
    // every stage evaluation and every step is an operation of the history: n <= stages * steps
    const long n = long(mon.seen) + steps;
    Shadowed<G> xe{x, ref};
    L acc = orc::err_rel1(l.matrix(toL(x.coeffs())), ref);
    if (how == 0) {
      // integrate_const may legitimately take steps-1 or steps+1 steps when steps*dt is not exactly representable
      for (int ds : {-1, +1}) acc = std::min(acc, orc::err_rel1(l.matrix(toL(x.coeffs())), Mat(x0.M * orc::exp_ref(l, v * (L(dt) * (steps + ds))))));
    }
    rep.judge(T + ".odeint.constant_velocity", st, acc / L(n + 1), 1e-13L, det);
    bool can;
    rep.judge(T + ".odeint.unit", st, unit_violation(l, toL(x.coeffs()), can) / L(n + 1), 1e-14L, det);
    rep.require(T + ".odeint.canonical", st, can, det);
    rep.require(T + ".odeint.stages_observed", st, mon.seen >= steps - 1, det);  // integrate_const may take one step fewer
    rep.judge(T + ".odeint.stage_unit", st, mon.worst_unit / L(n + 1), 1e-14L, det);
    rep.require(T + ".odeint.stage_finite_canonical", st, mon.finite && mon.canonical, det);
    rep.count("C15.odeint_stage_values_observed", mon.seen);
  });
}

int main(int argc, char ** argv)
{
  Args args = parse_args(argc, argv);
  Report rep(args);
  using namespace smooth;
#if TS == 0
  history_monitor<SO2d>(rep);
  history_monitor<SO3d>(rep);
  history_monitor<SE2d>(rep);
  history_monitor<SE3d>(rep);
#else
  history_monitor<C1d>(rep);
  history_monitor<Galileid>(rep);
  history_monitor<SE_K_3<double, 2>>(rep);
  history_monitor<Bundle<SO3d, Eigen::Vector2d, SE2d>>(rep);
#endif
  rep.write();
  return 0;
}
