// Monitor C17: relations and conversions between groups.
#include <smooth/derivatives.hpp>

#include "harness/gen.hpp"

using namespace vh;

static long NQ(const Report & rep, long quick, long thorough) { return rep.args.tier ? thorough : quick; }

template<typename S>
constexpr L tolsel(L d, L f)
{
  return std::is_same_v<S, float> ? f : d;
}

// error in units of eps relative to the largest entry of the pair (formulas are shared: expected 0)
template<typename S>
static L ulp_obj(const Mat & x, const Mat & y)
{
  if (x.rows() != y.rows() || x.cols() != y.cols()) return INFINITY;
  const L m = std::max<L>(1, std::max(orc::maxabs(x), orc::maxabs(y)));
  const L d = orc::maxabs(x - y);
  if (!(d == d)) return INFINITY;
  return d / (L(std::numeric_limits<S>::epsilon()) * m);
}

static const int kAng[] = {R_ZERO, R_TINY, R_BAND, R_BAND, R_GENERIC, R_GENERIC, R_NEARPI, R_EXACTPI, R_INV_NEARPI};

// ------------------------------------------------------------------ SE_K_3<1> == SE3
template<typename S>
static void sek1_vs_se3(Report & rep)
{
  using A = smooth::SE3<S>;
  using B = smooth::SE_K_3<S, 1>;
  const std::string T = std::string("SE_1_3") + sfx<S>() + "=SE3";
  const LayoutP lp = TI<A>::layout();
  const Layout & l = *lp;
  rep.run_stream(T, NQ(rep, 3000, 60000), [&](Rng & r, long) {
    const Vec c1 = gen_coeffs<S>(l, r, kAng[r.below(9)], r.below(4)), c2 = gen_coeffs<S>(l, r, kAng[r.below(9)], r.below(4));
    const Vec a  = gen_tangent<S>(l, r, kAng[r.below(9)], r.below(4));
    const A a1 = make_elem<A>(c1), a2 = make_elem<A>(c2);
    const B b1 = make_elem<B>(c1), b2 = make_elem<B>(c2);
    const Eigen::Matrix<S, 6, 1> as = a.template cast<S>();
    const TInfo ti = classify_tangent(l, a);
    const std::string st = "ang:" + rot_label(element_angle(l, c1)) + "," + ti.label();
    auto det = [&]() { return JObj().str("type", T).raw("g1", hexv(c1)).raw("g2", hexv(c2)).raw("a", hexv(a)).done(); };
    rep.note_input(Report::hash_vec(a, Report::hash_vec(c1)), true);
    auto chk = [&](const char * op, const Mat & x, const Mat & y) { rep.judge(T + "." + op, st, ulp_obj<S>(x, y), 4, det); };
    chk("compose", toL((a1 * a2).coeffs()), toL((b1 * b2).coeffs()));
    chk("inverse", toL(a1.inverse().coeffs()), toL(b1.inverse().coeffs()));
    chk("log", toL(a1.log()), toL(b1.log()));
    chk("exp", toL(A::exp(as).coeffs()), toL(B::exp(as).coeffs()));
    chk("matrix", toL(a1.matrix()), toL(b1.matrix()));
    chk("Ad", toL(a1.Ad()), toL(b1.Ad()));
    chk("ad", toL(A::ad(as)), toL(B::ad(as)));
    chk("hat", toL(A::hat(as)), toL(B::hat(as)));
    chk("vee", toL(A::vee(A::hat(as))), toL(B::vee(B::hat(as))));
    chk("dr_exp", toL(A::dr_exp(as)), toL(B::dr_exp(as)));
    chk("dl_exp", toL(A::dl_exp(as)), toL(B::dl_exp(as)));
    chk("rplus", toL((a1 + as).coeffs()), toL((b1 + as).coeffs()));
    chk("rminus", toL((a1 - a2).eval()), toL((b1 - b2).eval()));
    if (ti.rotmax <= PI_L - 1e-3L) {
      chk("dr_expinv", toL(A::dr_expinv(as)), toL(B::dr_expinv(as)));
      chk("dl_expinv", toL(A::dl_expinv(as)), toL(B::dl_expinv(as)));
    }
    chk("accessors", toL(a1.r3()), toL(b1.template r3<0>()));
    chk("accessors_so3", toL(a1.so3().coeffs()), toL(b1.so3().coeffs()));
  });
}

// ------------------------------------------------------------------ SE_K_3<2> = zero-time subgroup of Galilei
template<typename S>
static void sek2_vs_galilei(Report & rep)
{
  using K = smooth::SE_K_3<S, 2>;
  using G = smooth::Galilei<S>;
  const std::string T = std::string("SE_2_3") + sfx<S>() + "<Galilei";
  const LayoutP lk = TI<K>::layout(), lg = TI<G>::layout();
  const L tol = tolsel<S>(1e-12L, 1e-5L), tolj = tolsel<S>(1e-9L, 1e-3L);
  // embeddings written from the documented matrix forms
  auto emb_c = [](const Vec & c) {  // (p1 p2 q) -> (v p tau q)
    Vec g(11);
    g.segment(0, 3) = c.segment(0, 3);
    g.segment(3, 3) = c.segment(3, 3);
    g(6)            = 0;
    g.segment(7, 4) = c.segment(6, 4);
    return g;
  };
  auto emb_t = [](const Vec & a) {  // (v1 v2 w) -> (b q s w)
    Vec g(10);
    g.segment(0, 3) = a.segment(0, 3);
    g.segment(3, 3) = a.segment(3, 3);
    g(6)            = 0;
    g.segment(7, 3) = a.segment(6, 3);
    return g;
  };
  static const int idx[9] = {0, 1, 2, 3, 4, 5, 7, 8, 9};
  auto restrict_m = [&](const Mat & M) {
    Mat Rm(9, 9);
    for (int i = 0; i < 9; ++i)
      for (int j = 0; j < 9; ++j) Rm(i, j) = M(idx[i], idx[j]);
    return Rm;
  };
  rep.run_stream(T, NQ(rep, 3000, 60000), [&](Rng & r, long) {
    const Vec c1 = gen_coeffs<S>(*lk, r, kAng[r.below(9)], r.below(4)), c2 = gen_coeffs<S>(*lk, r, kAng[r.below(9)], r.below(4));
    const Vec a  = gen_tangent<S>(*lk, r, kAng[r.below(9)], r.below(4));
    const K k1 = make_elem<K>(c1), k2 = make_elem<K>(c2);
    const G g1 = make_elem<G>(emb_c(c1)), g2 = make_elem<G>(emb_c(c2));
    const Eigen::Matrix<S, 9, 1> ak  = a.template cast<S>();
    const Eigen::Matrix<S, 10, 1> ag = emb_t(a).template cast<S>();
    const TInfo ti = classify_tangent(*lk, a);
    const std::string st = "ang:" + rot_label(element_angle(*lk, c1)) + "," + ti.label();
    auto det = [&]() { return JObj().str("type", T).raw("k1", hexv(c1)).raw("k2", hexv(c2)).raw("a", hexv(a)).done(); };
    rep.note_input(Report::hash_vec(a, Report::hash_vec(c1)), true);
    auto chkc = [&](const char * op, const Mat & gal_coeffs, const Mat & k_coeffs) {
      // subgroup: tau stays exactly zero, the rest agrees
      rep.judge(T + "." + op + ".tau", st, fabsl(gal_coeffs(6)), 0, det);
      rep.judge(T + "." + op, st, orc::err_rel1(lg->matrix(gal_coeffs), lg->matrix(emb_c(k_coeffs))), tol, det);
    };
    chkc("compose", toL((g1 * g2).coeffs()), toL((k1 * k2).coeffs()));
    chkc("inverse", toL(g1.inverse().coeffs()), toL(k1.inverse().coeffs()));
    chkc("exp", toL(G::exp(ag).coeffs()), toL(K::exp(ak).coeffs()));
    rep.judge(T + ".log", st, orc::err_rel1(toL(g1.log()), emb_t(toL(k1.log()))), tolj, det);
    rep.judge(T + ".Ad", st, orc::err_rel1(restrict_m(toL(g1.Ad())), toL(k1.Ad())), tol, det);
    rep.judge(T + ".ad", st, orc::err_rel1(restrict_m(toL(G::ad(ag))), toL(K::ad(ak))), tol, det);
    rep.judge(T + ".dr_exp", st, orc::err_relmax(restrict_m(toL(G::dr_exp(ag))), toL(K::dr_exp(ak))), tolsel<S>(1e-7L, 1e-2L), det);
    if (ti.rotmax <= PI_L - 1e-3L)
      rep.judge(T + ".dr_expinv", st, orc::err_relmax(restrict_m(toL(G::dr_expinv(ag))), toL(K::dr_expinv(ak))), tolsel<S>(1e-7L, 1e-2L), det);
  });
}

// ------------------------------------------------------------------ lifts and projections
template<typename S>
static void lifts(Report & rep)
{
  using namespace smooth;
  const std::string T = std::string("lift") + sfx<S>();
  const LayoutP l2 = TI<SE2<S>>::layout(), l3 = TI<SE3<S>>::layout(), lo2 = TI<SO2<S>>::layout(), lo3 = TI<SO3<S>>::layout();
  const L tol = tolsel<S>(1e-12L, 1e-5L);
  auto emb_so2 = [](const Mat & M) {
    Mat E               = orc::eye(3);
    E.block(0, 0, 2, 2) = M;
    return E;
  };
  auto emb_se2 = [](const Mat & M) {  // SE2 matrix -> SE3 matrix (z = 0, rotation about z)
    Mat E               = orc::eye(4);
    E.block(0, 0, 2, 2) = M.block(0, 0, 2, 2);
    E(0, 3)             = M(0, 2);
    E(1, 3)             = M(1, 2);
    return E;
  };
  static const int full[] = {R_ZERO, R_TINY, R_BAND, R_GENERIC, R_GENERIC, R_NEARPI, R_EXACTPI, R_INV_NEARPI};
  rep.run_stream(T, NQ(rep, 4000, 80000), [&](Rng & r, long) {
    const Vec c1 = gen_coeffs<S>(*l2, r, full[r.below(8)], r.below(4)), c2 = gen_coeffs<S>(*l2, r, full[r.below(8)], r.below(4));
    const SE2<S> g1 = make_elem<SE2<S>>(c1), g2 = make_elem<SE2<S>>(c2);
    const SO2<S> s1 = make_elem<SO2<S>>(c1.segment(2, 2)), s2 = make_elem<SO2<S>>(c2.segment(2, 2));
    const std::string st = "ang:" + rot_label(element_angle(*l2, c1)) + ",tr:" + tr_label(coeff_trmax(*l2, c1));
    auto det = [&]() { return JObj().str("type", T).raw("g1", hexv(c1)).raw("g2", hexv(c2)).done(); };
    rep.note_input(Report::hash_vec(c2, Report::hash_vec(c1)), true);
    const Mat M1 = l2->matrix(c1), M2 = l2->matrix(c2), R1 = lo2->matrix(c1.segment(2, 2)), R2 = lo2->matrix(c2.segment(2, 2));
    // lift is the documented embedding
    const auto L1 = g1.lift_se3();
    rep.judge(T + ".lift_se3.embedding", st, orc::err_rel1(l3->matrix(toL(L1.coeffs())), emb_se2(M1)), tol, det);
    const auto Ls = s1.lift_so3();
    rep.judge(T + ".lift_so3.embedding", st, orc::err_rel1(lo3->matrix(toL(Ls.coeffs())), emb_so2(R1)), tol, det);
    rep.judge(T + ".lift_so3.canonical", st, toL(Ls.coeffs())(3) >= 0 ? 0 : INFINITY, 0, det);
    // homomorphism
    rep.judge(T + ".lift_se3.homomorphism", st,
      orc::err_rel1(l3->matrix(toL((g1 * g2).lift_se3().coeffs())), l3->matrix(toL((L1 * g2.lift_se3()).coeffs()))), 4 * tol, det);
    rep.judge(T + ".lift_so3.homomorphism", st,
      orc::err_rel1(lo3->matrix(toL((s1 * s2).lift_so3().coeffs())), lo3->matrix(toL((Ls * s2.lift_so3()).coeffs()))), 4 * tol, det);
    rep.judge(T + ".lift_se3.inverse", st,
      orc::err_rel1(l3->matrix(toL(g1.inverse().lift_se3().coeffs())), l3->matrix(toL(L1.inverse().coeffs()))), 4 * tol, det);
    // projection inverts the lift (hence the lift is injective)
    rep.judge(T + ".project_se2(lift_se3)", st, orc::err_rel1(l2->matrix(toL(L1.project_se2().coeffs())), M1), tol, det);
    rep.judge(T + ".project_so2(lift_so3)", st, orc::err_rel1(lo2->matrix(toL(Ls.project_so2().coeffs())), R1), tol, det);
    // projecting a product of lifts is the product
    rep.judge(T + ".project_se2.product", st, orc::err_rel1(l2->matrix(toL((L1 * g2.lift_se3()).project_se2().coeffs())), M1 * M2), 4 * tol, det);
    (void)R2;
  });
}

// ------------------------------------------------------------------ C1 factorisation, rot_x/y/z
template<typename S>
static void c1_and_rot(Report & rep)
{
  using namespace smooth;
  const std::string T = std::string("misc") + sfx<S>();
  const LayoutP lc = TI<C1<S>>::layout(), lo2 = TI<SO2<S>>::layout(), lo3 = TI<SO3<S>>::layout();
  const L tol = tolsel<S>(1e-12L, 1e-5L);
  rep.run_stream(T + ".c1", NQ(rep, 3000, 60000), [&](Rng & r, long) {
    static const int full[] = {R_ZERO, R_TINY, R_BAND, R_GENERIC, R_GENERIC, R_NEARPI, R_EXACTPI};
    const Vec c   = gen_coeffs<S>(*lc, r, full[r.below(7)], 0);
    const C1<S> g = make_elem<C1<S>>(c);
    auto det      = [&]() { return JObj().str("type", T).raw("c1", hexv(c)).done(); };
    rep.note_input(Report::hash_vec(c), true);
    const std::string st = "ang:" + rot_label(element_angle(*lc, c));
    const L k = g.scaling();
    rep.judge(T + ".c1.factor", st, orc::err_rel1(k * lo2->matrix(toL(g.so2().coeffs())), lc->matrix(c)), tol * std::max<L>(1, k), det);
    rep.judge(T + ".c1.scaling_positive", st, k > 0 ? 0 : INFINITY, 0, det);
    rep.judge(T + ".c1.scaling", st, fabsl(k - c.norm()) / c.norm(), tol, det);
    rep.judge(T + ".c1.angle", st, fabsl(L(g.angle()) - L(g.so2().angle())), 8 * L(std::numeric_limits<S>::epsilon()), det);
    // constructors: C1(scaling, angle), C1(complex) <-> c1()
    const C1<S> g2(g.c1());
    rep.judge(T + ".c1.complex_roundtrip", st, orc::maxabs(toL(g2.coeffs()) - c), 0, det);
    const S ang = S(r.range(-7, 7)), sc = S(r.loguni(0.05, 20));
    const C1<S> g3(sc, ang);
    Mat ref(2, 2);
    ref << cosl(L(ang)), -sinl(L(ang)), sinl(L(ang)), cosl(L(ang));
    rep.judge(T + ".c1.from_scaling_angle", st, orc::err_rel1(lc->matrix(toL(g3.coeffs())), L(sc) * ref), tol * std::max<L>(1, L(sc)), det);
  });
  rep.run_stream(T + ".rot", NQ(rep, 3000, 60000), [&](Rng & r, long i) {
    S t;
    const int k = r.below(10);
    const L specials[] = {0, PI_L / 2, -PI_L / 2, PI_L, -PI_L, 2 * PI_L, -2 * PI_L, 3 * PI_L};
    if (k < 3) t = S(specials[r.below(8)]);
    else if (k < 4) t = S(specials[r.below(8)] + L(r.sym()) * 1e-7L);
    else if (k < 6) t = S((r.coin() ? 1 : -1) * r.loguni(1e-12, 1e-1));
    else t = S(r.range(-10, 10));
    const int ax = int(i % 3);
    const SO3<S> g = ax == 0 ? SO3<S>::rot_x(t) : (ax == 1 ? SO3<S>::rot_y(t) : SO3<S>::rot_z(t));
    Vec a = Vec::Zero(3);
    a(ax) = L(t);
    auto det = [&]() { return JObj().str("type", T).integer("axis", ax).num("t", t).done(); };
    rep.note_input(hash_bytes(&t, sizeof t, uint64_t(ax)), t != 0);
    const std::string st = "t:" + rot_label(fabsl(L(t)));
    rep.judge(T + ".rot_axis", st, orc::err_rel1(lo3->matrix(toL(g.coeffs())), orc::exp_ref(*lo3, a)), tol, det);
    rep.judge(T + ".rot_axis.canonical", st, toL(g.coeffs())(3) >= 0 ? 0 : INFINITY, 0, det);
    rep.judge(T + ".rot_axis.unit", st, fabsl(toL(g.coeffs()).norm() - 1), 4 * L(std::numeric_limits<S>::epsilon()), det);
  });
}

// ------------------------------------------------------------------ conversions
template<typename S>
static void conversions(Report & rep)
{
  using namespace smooth;
  const std::string T = std::string("conv") + sfx<S>();
  const LayoutP lo3 = TI<SO3<S>>::layout(), l3 = TI<SE3<S>>::layout(), l2 = TI<SE2<S>>::layout(), lo2 = TI<SO2<S>>::layout();
  const L tol = tolsel<S>(1e-12L, 1e-5L);
  const L eps = std::numeric_limits<S>::epsilon();

  rep.run_stream(T + ".quaternion", NQ(rep, 4000, 80000), [&](Rng & r, long) {
    static const int full[] = {R_ZERO, R_TINY, R_BAND, R_GENERIC, R_GENERIC, R_NEARPI, R_EXACTPI, R_BEYOND};
    Vec q = gen_coeffs<double>(*lo3, r, full[r.below(8)], 0);
    // unnormalised and negative-w inputs
    const L scale = r.coin(0.3) ? 1.0L : L(r.loguni(1e-3, 1e3));
    const bool neg = r.coin();
    q *= (neg ? -scale : scale);
    Eigen::Quaternion<S> qe(S(q(3)), S(q(0)), S(q(1)), S(q(2)));
    const Vec qs = toL(qe.coeffs());
    const SO3<S> g(qe);
    const Vec c = toL(g.coeffs());
    auto det = [&]() { return JObj().str("type", T).raw("q_in", hexv(qs)).raw("coeffs", hexv(c)).done(); };
    rep.note_input(Report::hash_vec(qs), true);
    const std::string st = std::string(neg ? "negw" : "posw") + (scale == 1 ? ",unit" : ",scaled") + ",ang:" + rot_label(element_angle(*lo3, qs / qs.norm()));
    rep.judge(T + ".quat.normalised", st, fabsl(c.norm() - 1), 4 * eps, det);
    rep.judge(T + ".quat.canonical", st, c(3) >= 0 ? 0 : INFINITY, 0, det);
    rep.judge(T + ".quat.same_rotation", st, orc::err_rel1(lo3->matrix(c), orc::quat_to_R(qs / qs.norm())), tol, det);
    // quat() view round trip
    const SO3<S> g2(g.quat());
    rep.judge(T + ".quat.roundtrip", st, orc::err_rel1(lo3->matrix(toL(g2.coeffs())), lo3->matrix(c)), tol, det);
    // action through quat equals matrix action
    Eigen::Matrix<S, 3, 1> v(S(r.sym()), S(r.sym()), S(r.sym()));
    rep.judge(T + ".quat.action", st, orc::err_rel1(toL((g.quat() * v).eval()), lo3->matrix(c) * toL(v)), tol, det);
  });

  rep.run_stream(T + ".isometry", NQ(rep, 3000, 60000), [&](Rng & r, long) {
    static const int full[] = {R_ZERO, R_TINY, R_BAND, R_GENERIC, R_GENERIC, R_NEARPI, R_EXACTPI};
    const Vec c3 = gen_coeffs<S>(*l3, r, full[r.below(7)], r.below(4));
    const Vec c2 = gen_coeffs<S>(*l2, r, full[r.below(7)], r.below(4));
    const SE3<S> g3 = make_elem<SE3<S>>(c3);
    const SE2<S> g2 = make_elem<SE2<S>>(c2);
    auto det = [&]() { return JObj().str("type", T).raw("se3", hexv(c3)).raw("se2", hexv(c2)).done(); };
    rep.note_input(Report::hash_vec(c2, Report::hash_vec(c3)), true);
    const std::string st = "ang:" + rot_label(element_angle(*l3, c3)) + ",tr:" + tr_label(coeff_trmax(*l3, c3));
    const auto iso3 = g3.isometry();
    rep.judge(T + ".se3.isometry", st, orc::err_rel1(toL(iso3.matrix()), l3->matrix(c3)), tol, det);
    const SE3<S> b3(iso3);
    rep.judge(T + ".se3.from_isometry", st, orc::err_rel1(l3->matrix(toL(b3.coeffs())), l3->matrix(c3)), tol, det);
    rep.judge(T + ".se3.from_isometry.canonical", st, toL(b3.coeffs())(6) >= 0 ? 0 : INFINITY, 0, det);
    const auto iso2 = g2.isometry();
    rep.judge(T + ".se2.isometry", st, orc::err_rel1(toL(iso2.matrix()), l2->matrix(c2)), tol, det);
    const SE2<S> b2(iso2);
    rep.judge(T + ".se2.from_isometry", st, orc::err_rel1(l2->matrix(toL(b2.coeffs())), l2->matrix(c2)), tol, det);
    // constructors from parts
    const SE3<S> p3(g3.so3(), g3.r3());
    rep.judge(T + ".se3.from_parts", st, orc::maxabs(toL(p3.coeffs()) - c3), 0, det);
    const SE2<S> p2(g2.so2(), g2.r2());
    rep.judge(T + ".se2.from_parts", st, orc::maxabs(toL(p2.coeffs()) - c2), 0, det);
  });

  rep.run_stream(T + ".complex", NQ(rep, 3000, 60000), [&](Rng & r, long) {
    static const int full[] = {R_ZERO, R_TINY, R_BAND, R_GENERIC, R_GENERIC, R_NEARPI, R_EXACTPI};
    const Vec c = gen_coeffs<S>(*lo2, r, full[r.below(7)], 0);
    const L scale = r.coin(0.3) ? 1.0L : L(r.loguni(1e-3, 1e3));
    const std::complex<S> z(S(scale * c(1)), S(scale * c(0)));
    const SO2<S> g(z);
    const Vec gc = toL(g.coeffs());
    auto det = [&]() { return JObj().str("type", T).num("re", z.real()).num("im", z.imag()).raw("coeffs", hexv(gc)).done(); };
    rep.note_input(Report::hash_vec(c, hash_bytes(&scale, sizeof scale)), true);
    const std::string st = std::string(scale == 1 ? "unit" : "scaled") + ",ang:" + rot_label(element_angle(*lo2, c));
    const L n = sqrtl(L(z.real()) * z.real() + L(z.imag()) * z.imag());
    Vec ref(2);
    ref << L(z.imag()) / n, L(z.real()) / n;
    rep.judge(T + ".so2.from_complex", st, orc::maxabs(gc - ref), tol, det);
    rep.judge(T + ".so2.normalised", st, fabsl(gc.norm() - 1), 4 * eps, det);
    const SO2<S> g2(g.u1());
    rep.judge(T + ".so2.u1_roundtrip", st, orc::maxabs(toL(g2.coeffs()) - gc), 4 * eps, det);
    const SO2<S> g3(S(scale * c(0)), S(scale * c(1)));
    rep.judge(T + ".so2.from_qz_qw", st, orc::maxabs(toL(g3.coeffs()) - ref), tol, det);
    Vec uc = toL(g.unit_complex());
    rep.judge(T + ".so2.unit_complex", st, fabsl(uc(0) - gc(1)) + fabsl(uc(1) - gc(0)), 0, det);
  });

  rep.run_stream(T + ".euler", NQ(rep, 4000, 80000), [&](Rng & r, long i) {
    static const int conv[12][3] = {{0, 1, 2}, {0, 2, 1}, {1, 0, 2}, {1, 2, 0}, {2, 0, 1}, {2, 1, 0},
      {0, 1, 0}, {0, 2, 0}, {1, 0, 1}, {1, 2, 1}, {2, 0, 2}, {2, 1, 2}};
    const int * cv = conv[i % 12];
    // build from three angles with the middle one away from gimbal lock by >= 1e-3
    const bool proper = cv[0] == cv[2];
    const L e0 = r.range(-3.1, 3.1), e2 = r.range(-3.1, 3.1);
    L e1;
    if (proper) e1 = r.range(1e-3, double(PI_L) - 1e-3);
    else e1 = r.range(-double(PI_L) / 2 + 1e-3, double(PI_L) / 2 - 1e-3);
    auto axisrot = [&](int ax, L ang) {
      Vec a = Vec::Zero(3);
      a(ax) = ang;
      return orc::exp_ref(*lo3, a);
    };
    const Mat Rref = axisrot(cv[0], e0) * axisrot(cv[1], e1) * axisrot(cv[2], e2);
    const SO3<S> g = make_elem<SO3<S>>(Vec(orc::R_to_quat(Rref)).unaryExpr([](L x) { return L(S(x)); }));
    const Mat Rg   = lo3->matrix(toL(g.coeffs()));
    const Eigen::Matrix<S, 3, 1> ea = g.eulerAngles(cv[0], cv[1], cv[2]);
    const Mat Rback = axisrot(cv[0], ea(0)) * axisrot(cv[1], ea(1)) * axisrot(cv[2], ea(2));
    auto det = [&]() {
      return JObj().str("type", T).integer("i1", cv[0]).integer("i2", cv[1]).integer("i3", cv[2]).raw("g", hexv(toL(g.coeffs()))).raw("euler_lib", jvec(ea)).done();
    };
    rep.note_input(Report::hash_vec(toL(g.coeffs()), uint64_t(i % 12)), true);
    const std::string st = std::string(proper ? "proper" : "tait-bryan") + "," + std::to_string(cv[0]) + std::to_string(cv[1]) + std::to_string(cv[2]);
    // near gimbal lock the angles are ill-conditioned but the rotation they describe must still match
    rep.judge(T + ".euler.roundtrip", st, orc::err_rel1(Rback, Rg), tolsel<S>(1e-9L, 1e-3L), det);
  });

  // SO2 angle representations
  rep.run_stream(T + ".so2angles", NQ(rep, 6000, 120000), [&](Rng & r, long) {
    const L specials[] = {0.0L, -0.0L, PI_L / 2, -PI_L / 2, PI_L, -PI_L, PI_L / 4, 3 * PI_L / 4};
    SO2<S> g;
    const int k = r.below(12);
    std::string how;
    if (k < 3) {
      g   = SO2<S>(S(specials[r.below(8)]));
      how = "special_angle";
    } else if (k < 5) {
      // exact coefficient patterns incl. signed zeros (qz, qw)
      static const double pat[8][2] = {{0.0, 1.0}, {-0.0, 1.0}, {0.0, -1.0}, {-0.0, -1.0}, {1.0, 0.0}, {-1.0, 0.0}, {1.0, -0.0}, {-1.0, -0.0}};
      const int p = r.below(8);
      g           = SO2<S>(S(pat[p][0]), S(pat[p][1]));
      how         = "signed_zero_coeffs";
    } else if (k < 7) {
      g   = SO2<S>(S(specials[r.below(8)])).inverse();
      how = "inverse_of_special";
    } else if (k < 9) {
      // one ulp either side of the atan2 cuts
      const S a = S(specials[2 + r.below(6)]);
      g         = SO2<S>(std::nextafter(a, r.coin() ? S(10) : S(-10)));
      how       = "cut_plus_minus_ulp";
    } else if (k < 10) {
      g   = SO2<S>(S(r.range(-7, 7))) * SO2<S>(S(r.range(-7, 7))).inverse();
      how = "product";
    } else {
      g   = SO2<S>(S(r.range(-7, 7)));
      how = "generic";
    }
    const Vec c  = toL(g.coeffs());
    const L truth = atan2l(c(0), c(1));
    const L a = g.angle(), acw = g.angle_cw(), accw = g.angle_ccw();
    auto det = [&]() { return JObj().str("type", T).str("how", how).raw("coeffs", hexv(c)).num("angle", a).num("angle_cw", acw).num("angle_ccw", accw).done(); };
    rep.note_input(Report::hash_vec(c), true);
    const L slack = 4 * eps * 2 * PI_L;  // rounding of the scalar constants pi / 2 pi
    auto congruent = [&](L x) {
      L d = fmodl(x - truth, 2 * PI_L);
      if (d > PI_L) d -= 2 * PI_L;
      if (d < -PI_L) d += 2 * PI_L;
      return fabsl(d);
    };
    auto outside = [&](L x, L lo, L hi) { return x < lo ? lo - x : (x > hi ? x - hi : 0.0L); };
    rep.judge(T + ".angle.range", how, outside(a, -PI_L, PI_L), slack, det);
    rep.judge(T + ".angle_cw.range", how, outside(acw, -2 * PI_L, 0), slack, det);
    rep.judge(T + ".angle_ccw.range", how, outside(accw, 0, 2 * PI_L), slack, det);
    rep.judge(T + ".angle.congruent", how, congruent(a), 8 * eps * PI_L, det);
    rep.judge(T + ".angle_cw.congruent", how, congruent(acw), 8 * eps * PI_L, det);
    rep.judge(T + ".angle_ccw.congruent", how, congruent(accw), 8 * eps * PI_L, det);
  });
}

int main(int argc, char ** argv)
{
  Args args = parse_args(argc, argv);
  Report rep(args);
  sek1_vs_se3<double>(rep);
  sek1_vs_se3<float>(rep);
  sek2_vs_galilei<double>(rep);
  sek2_vs_galilei<float>(rep);
  lifts<double>(rep);
  lifts<float>(rep);
  c1_and_rot<double>(rep);
  c1_and_rot<float>(rep);
  conversions<double>(rep);
  conversions<float>(rep);
  rep.write();
  return 0;
}
