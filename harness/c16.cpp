// Monitor C16: Map views behave like values and write only their own memory.
// Three independent monitors: (1) ASan poisoning of the arena around the viewed range, (2) sentinel
// comparison of every byte outside the range a call may write, (3) page protection: const views live
// on a PROT_READ page flush against PROT_NONE neighbours (any write or over-read is a SIGSEGV).
#include <sys/mman.h>

#include "harness/gen.hpp"

#if defined(__SANITIZE_ADDRESS__)
#include <sanitizer/asan_interface.h>
#define VH_POISON(p, n) __asan_poison_memory_region((p), (n))
#define VH_UNPOISON(p, n) __asan_unpoison_memory_region((p), (n))
#else
#define VH_POISON(p, n) ((void)0)
#define VH_UNPOISON(p, n) ((void)0)
#endif

using namespace vh;

#ifndef TS
#define TS 0
#endif

static long NQ(const Report & rep, long quick, long thorough) { return rep.args.tier ? thorough : quick; }

template<typename S>
static L ulps(const Mat & x, const Mat & y)
{
  if (x.rows() != y.rows() || x.cols() != y.cols()) return INFINITY;
  L worst      = 0;
  const L epsS = std::numeric_limits<S>::epsilon();
  for (int i = 0; i < x.rows(); ++i)
    for (int j = 0; j < x.cols(); ++j) {
      const L a = x(i, j), b = y(i, j);
      if (a == b) continue;
      if (!(a == a) || !(b == b)) return INFINITY;
      worst = std::max(worst, fabsl(a - b) / (epsS * std::max<L>(std::max(fabsl(a), fabsl(b)), std::numeric_limits<S>::min())));
    }
  return worst;
}

// ------------------------------------------------------------------ arena with sentinels and poison
template<typename S>
struct Arena
{
  static constexpr int PAD = 24;  // scalars on each side
  S * base                 = nullptr;
  int total = 0, off = 0, len = 0;
  std::vector<S> expect;  // sentinel image
  Arena(Rng & r, int rep_size)
  {
    len   = rep_size;
    off   = PAD + r.below(64 / int(sizeof(S)));  // every scalar-aligned offset inside a 64-byte line
    total = off + len + PAD + 16;
    void * p;
    if (posix_memalign(&p, 64, size_t(total) * sizeof(S)) != 0) abort();
    base = static_cast<S *>(p);
    expect.resize(size_t(total));
    for (int i = 0; i < total; ++i) expect[size_t(i)] = base[i] = S(1e6 + i * 3 + r.below(3));
  }
  S * view() const { return base + off; }
  // poison everything outside [view, view+len) that can be expressed at 8-byte granularity
  void poison() const
  {
    const auto b = reinterpret_cast<uintptr_t>(base), v0 = reinterpret_cast<uintptr_t>(view()), v1 = v0 + size_t(len) * sizeof(S),
               e = b + size_t(total) * sizeof(S);
    const uintptr_t left_end = v0 & ~uintptr_t(7);      // last granule boundary not after the view start
    if (left_end > b) VH_POISON(reinterpret_cast<void *>(b), left_end - b);
    const uintptr_t right_begin = (v1 + 7) & ~uintptr_t(7);
    // ASan can mark a granule partially addressable only from its start: [v1, right_begin) stays addressable
    if (e > right_begin) VH_POISON(reinterpret_cast<void *>(right_begin), e - right_begin);
  }
  void unpoison() const { VH_UNPOISON(base, size_t(total) * sizeof(S)); }
  // number of scalars outside [lo, hi) (relative to view) whose bits changed
  int damaged(int lo, int hi) const
  {
    int n = 0;
    for (int i = 0; i < total; ++i) {
      const int rel = i - off;
      if (rel >= lo && rel < hi) continue;
      if (std::memcmp(&base[i], &expect[size_t(i)], sizeof(S)) != 0) ++n;
    }
    return n;
  }
  // accept the current content of [lo,hi) as the new expectation
  void commit(int lo, int hi)
  {
    for (int rel = lo; rel < hi; ++rel) expect[size_t(off + rel)] = base[off + rel];
  }
  ~Arena()
  {
    unpoison();
    free(base);
  }
};

// ------------------------------------------------------------------ protected pages for const views
template<typename S>
struct RoPages
{
  char * mem = nullptr;
  long ps    = 0;
  S * ptr    = nullptr;
  // layout: [NONE][RW->R data page][NONE]; the view is flush against the end (or the start) of the data page
  RoPages(const Eigen::Matrix<S, -1, 1> & coeffs, bool at_end)
  {
    ps  = sysconf(_SC_PAGESIZE);
    mem = static_cast<char *>(mmap(nullptr, size_t(3 * ps), PROT_READ | PROT_WRITE, MAP_PRIVATE | MAP_ANONYMOUS, -1, 0));
    if (mem == MAP_FAILED) abort();
    const size_t bytes = size_t(coeffs.size()) * sizeof(S);
    char * p           = at_end ? mem + 2 * ps - bytes : mem + ps;
    std::memcpy(p, coeffs.data(), bytes);
    ptr = reinterpret_cast<S *>(p);
    mprotect(mem, size_t(ps), PROT_NONE);
    mprotect(mem + 2 * ps, size_t(ps), PROT_NONE);
    mprotect(mem + ps, size_t(ps), PROT_READ);
  }
  ~RoPages() { munmap(mem, size_t(3 * ps)); }
};

template<typename G>
struct ActDim
{
  static constexpr int value = 0;
};
template<typename S> struct ActDim<smooth::SO2<S>> { static constexpr int value = 2; };
template<typename S> struct ActDim<smooth::SO3<S>> { static constexpr int value = 3; };
template<typename S> struct ActDim<smooth::SE2<S>> { static constexpr int value = 2; };
template<typename S> struct ActDim<smooth::SE3<S>> { static constexpr int value = 3; };
template<typename S> struct ActDim<smooth::C1<S>> { static constexpr int value = 2; };
template<typename S> struct ActDim<smooth::Galilei<S>> { static constexpr int value = 4; };

// sub-part views: name, offset, length, and a functor applying a write through the view on any storage
template<typename G, typename F>
static void for_each_subview(F && f)
{
  using S = typename G::Scalar;
  if constexpr (requires(G g) { g.so2(); }) {
    f("so2", G::RepSize - 2, 2, [](auto & x, Rng & r) { x.so2() = smooth::SO2<S>(S(r.range(-3, 3))); });
    f("so2*=", G::RepSize - 2, 2, [](auto & x, Rng & r) { x.so2() *= smooth::SO2<S>(S(r.range(-3, 3))); });
  }
  if constexpr (requires(G g) { g.r2(); }) f("r2", 0, 2, [](auto & x, Rng & r) { x.r2() = Eigen::Matrix<S, 2, 1>(S(r.sym()), S(r.sym())); });
  if constexpr (requires(G g) { g.so3(); }) {
    f("so3", G::RepSize - 4, 4, [](auto & x, Rng & r) { x.so3() = smooth::SO3<S>::rot_x(S(r.range(-3, 3))); });
    f("so3*=", G::RepSize - 4, 4, [](auto & x, Rng & r) { x.so3() *= smooth::SO3<S>::rot_z(S(r.range(-3, 3))); });
    f("so3.setIdentity", G::RepSize - 4, 4, [](auto & x, Rng &) { x.so3().setIdentity(); });
  }
  if constexpr (requires(G g) { g.r3(); }) f("r3", 0, 3, [](auto & x, Rng & r) { x.r3() = Eigen::Matrix<S, 3, 1>(S(r.sym()), S(r.sym()), S(r.sym())); });
  if constexpr (requires(G g) { g.r3_v(); }) f("r3_v", 0, 3, [](auto & x, Rng & r) { x.r3_v() = Eigen::Matrix<S, 3, 1>(S(r.sym()), S(r.sym()), S(r.sym())); });
  if constexpr (requires(G g) { g.r3_p(); }) f("r3_p", 3, 3, [](auto & x, Rng & r) { x.r3_p() = Eigen::Matrix<S, 3, 1>(S(r.sym()), S(r.sym()), S(r.sym())); });
  if constexpr (requires(G g) { g.r1_t(); }) f("r1_t", 6, 1, [](auto & x, Rng & r) { x.r1_t().x() = S(r.sym()); });
  if constexpr (requires(G g) { g.template r3<1>(); }) {
    f("r3<0>", 0, 3, [](auto & x, Rng & r) { x.template r3<0>() = Eigen::Matrix<S, 3, 1>(S(r.sym()), S(r.sym()), S(r.sym())); });
    f("r3<1>", 3, 3, [](auto & x, Rng & r) { x.template r3<1>() = Eigen::Matrix<S, 3, 1>(S(r.sym()), S(r.sym()), S(r.sym())); });
    f("r3(1)", 3, 3, [](auto & x, Rng & r) { x.r3(1) = Eigen::Matrix<S, 3, 1>(S(r.sym()), S(r.sym()), S(r.sym())); });
  }
  if constexpr (requires(G g) { g.template part<1>(); }) {
    // Bundle<SE2, R2, SO3>: parts at the oracle's own prefix sums
    const auto lp = TI<G>::layout();
    f("part<0>.setIdentity", lp->part_rep[0], lp->parts[0]->rep, [](auto & x, Rng &) { x.template part<0>().setIdentity(); });
    f("part<1>=", lp->part_rep[1], lp->parts[1]->rep, [](auto & x, Rng & r) { x.template part<1>() = Eigen::Matrix<S, 2, 1>(S(r.sym()), S(r.sym())); });
    f("part<2>*=", lp->part_rep[2], lp->parts[2]->rep, [](auto & x, Rng & r) { x.template part<2>() *= smooth::SO3<S>::rot_y(S(r.range(-3, 3))); });
  }
}

template<typename G>
static void map_monitor(Report & rep)
{
  using S             = typename G::Scalar;
  constexpr int R     = G::RepSize;
  const LayoutP lp    = TI<G>::layout();
  const Layout & l    = *lp;
  const std::string T = TI<G>::name();
  using Tangent       = Eigen::Matrix<S, G::Dof, 1>;
  static const int am[] = {R_ZERO, R_TINY, R_BAND, R_GENERIC, R_GENERIC, R_NEARPI, R_EXACTPI};

  // ---- const operations: value == Map == const Map; nothing outside (and nothing inside) is written
  rep.run_stream(T + ".const_ops", NQ(rep, 600, 20000), [&](Rng & r, long) {
    const Vec c1 = gen_coeffs<S>(l, r, am[r.below(7)], r.below(4)), c2 = gen_coeffs<S>(l, r, am[r.below(7)], r.below(4));
    const Vec a  = gen_tangent<S>(l, r, R_GENERIC, r.below(3));
    const G v1 = make_elem<G>(c1), v2 = make_elem<G>(c2);
    const Tangent as = a.template cast<S>();
    Arena<S> A1(r, R), A2(r, R);
    for (int i = 0; i < R; ++i) {
      A1.view()[i] = v1.coeffs()(i);
      A2.view()[i] = v2.coeffs()(i);
    }
    A1.commit(0, R);
    A2.commit(0, R);
    A1.poison();
    A2.poison();
    const std::string st = "offset=" + std::to_string((A1.off - Arena<S>::PAD) % (64 / int(sizeof(S))));
    auto det = [&]() { return JObj().str("type", T).raw("g1", hexv(c1)).raw("g2", hexv(c2)).raw("a", hexv(a)).integer("offset_scalars", A1.off).done(); };
    rep.note_input(Report::hash_vec(c2, Report::hash_vec(c1, uint64_t(A1.off))), true);
    {
      smooth::Map<G> m1(A1.view()), m2(A2.view());
      smooth::Map<const G> k1(A1.view()), k2(A2.view());
      auto chk = [&](const char * op, const Mat & ref, const Mat & viaMap, const Mat & viaConst) {
        rep.judge(T + "." + op + ".map", st, ulps<S>(viaMap, ref), 4, det);
        rep.judge(T + "." + op + ".constmap", st, ulps<S>(viaConst, ref), 4, det);
      };
      chk("compose", toL((v1 * v2).coeffs()), toL((m1 * m2).coeffs()), toL((k1 * k2).coeffs()));
      chk("compose_mixed", toL((v1 * v2).coeffs()), toL((m1 * v2).coeffs()), toL((v1 * k2).coeffs()));
      chk("inverse", toL(v1.inverse().coeffs()), toL(m1.inverse().coeffs()), toL(k1.inverse().coeffs()));
      chk("log", toL(v1.log()), toL(m1.log()), toL(k1.log()));
      chk("Ad", toL(v1.Ad()), toL(m1.Ad()), toL(k1.Ad()));
      chk("matrix", toL(v1.matrix()), toL(m1.matrix()), toL(k1.matrix()));
      chk("rplus", toL((v1 + as).coeffs()), toL((m1 + as).coeffs()), toL((k1 + as).coeffs()));
      chk("rminus", toL((v1 - v2).eval()), toL((m1 - m2).eval()), toL((k1 - k2).eval()));
      chk("coeffs", c1, toL(m1.coeffs()), toL(k1.coeffs()));
      chk("cast", toL(v1.template cast<double>().coeffs()), toL(m1.template cast<double>().coeffs()), toL(k1.template cast<double>().coeffs()));
      chk("cast_float", toL(v1.template cast<float>().coeffs()), toL(m1.template cast<float>().coeffs()), toL(k1.template cast<float>().coeffs()));
      rep.require(T + ".isApprox.map", st, m1.isApprox(v1) && k1.isApprox(m1) && v1.isApprox(k1), det);
      rep.require(T + ".data_pointer", st, m1.data() == A1.view() && k1.data() == A1.view(), det);
      rep.require(T + ".dof", st, m1.dof() == G::Dof && k1.dof() == G::Dof, det);
      if constexpr (ActDim<G>::value > 0) {
        Eigen::Matrix<S, ActDim<G>::value, 1> p;
        for (int i = 0; i < p.size(); ++i) p(i) = S(r.sym() * 3);
        chk("action", toL((v1 * p).eval()), toL((m1 * p).eval()), toL((k1 * p).eval()));
      }
      // construction / assignment between storage kinds copies verbatim
      const G fromMap(m1), fromConst(k1);
      G assigned;
      assigned = m1;
      G assigned2;
      assigned2 = k1;
      rep.require(T + ".construct_value_from_views", st, fromMap.coeffs() == v1.coeffs() && fromConst.coeffs() == v1.coeffs(), det);
      rep.require(T + ".assign_value_from_views", st, assigned.coeffs() == v1.coeffs() && assigned2.coeffs() == v1.coeffs(), det);
      // cast does not reorder: coefficient i of the cast equals the cast of coefficient i
      const auto cf = k1.template cast<float>();
      bool ord = true;
      for (int i = 0; i < R; ++i) ord = ord && cf.coeffs()(i) == float(v1.coeffs()(i));
      rep.require(T + ".cast_no_reorder", st, ord, det);
      {
        // arbitrary coefficient contents under a view (not a valid element: e.g. q_w < 0, non-unit): copies and casts
        // are coefficient-wise, also through the rotation sub-views
        Eigen::Matrix<S, R, 1> raw;
        for (int i = 0; i < R; ++i) raw(i) = S(2 * r.sym());
        smooth::Map<const G> kr(raw.data());
        const auto cd = kr.template cast<double>();
        const auto cq = kr.template cast<float>();
        bool okc = true;
        for (int i = 0; i < R; ++i) okc = okc && cd.coeffs()(i) == double(raw(i)) && cq.coeffs()(i) == float(raw(i));
        const G copy(kr);
        G asg;
        asg = kr;
        okc = okc && copy.coeffs() == raw && asg.coeffs() == raw;
        auto sub_ok = [&](const auto & view) {
          const auto c1 = view.template cast<double>();
          const auto c2 = view.template cast<float>();
          bool o = true;
          for (int i = 0; i < int(view.coeffs().size()); ++i) o = o && c1.coeffs()(i) == double(view.coeffs()(i)) && c2.coeffs()(i) == float(view.coeffs()(i));
          return o;
        };
        if constexpr (requires { kr.so3(); }) okc = okc && sub_ok(kr.so3());
        if constexpr (requires { kr.so2(); }) okc = okc && sub_ok(kr.so2());
        if constexpr (requires { kr.template part<0>(); }) {
          if constexpr (requires { kr.template part<0>().coeffs(); }) okc = okc && sub_ok(kr.template part<0>());
        }
        rep.require(T + ".raw_contents.cast_and_copy_verbatim", st, okc, [&]() { return JObj().str("type", T).raw("raw", hexv(toL(raw))).done(); });
      }
    }
    A1.unpoison();
    A2.unpoison();
    rep.judge(T + ".const_ops.no_write_anywhere", st, A1.damaged(0, 0) + A2.damaged(0, 0), 0, det);
  });

  // ---- mutating histories on a Map vs the same history on a value
  rep.run_stream(T + ".mutating", NQ(rep, 600, 20000), [&](Rng & r, long idx) {
    const Vec c1 = gen_coeffs<S>(l, r, am[r.below(7)], r.below(4));
    G val        = make_elem<G>(c1);
    Arena<S> A(r, R);
    for (int i = 0; i < R; ++i) A.view()[i] = val.coeffs()(i);
    A.commit(0, R);
    A.poison();
    const std::string st = "offset=" + std::to_string((A.off - Arena<S>::PAD) % (64 / int(sizeof(S))));
    std::string hist;
    auto det = [&]() { return JObj().str("type", T).raw("g", hexv(c1)).str("history", hist).integer("offset_scalars", A.off).done(); };
    rep.note_input(Report::hash_vec(c1, uint64_t(A.off * 1000 + idx)), true);
    smooth::Map<G> m(A.view());
    const int nops = 3 + r.below(8);
    for (int k = 0; k < nops; ++k) {
      const int op  = r.below(10);
      int lo = 0, hi = R;  // range the call may write (relative to the view)
      std::string name;
      switch (op) {
        case 0: {
          const G o = make_elem<G>(gen_coeffs<S>(l, r, am[r.below(7)], r.below(3)));
          m *= o;
          val *= o;
          name = "*=";
          break;
        }
        case 1: {
          const Tangent t = gen_tangent<S>(l, r, R_GENERIC, r.below(3)).template cast<S>();
          m += t;
          val += t;
          name = "+=";
          break;
        }
        case 2:
          m.setIdentity();
          val.setIdentity();
          name = "setIdentity";
          break;
        case 3: {
          const unsigned seed = unsigned(r.next());
          std::srand(seed);
          m.setRandom();
          std::srand(seed);
          val.setRandom();
          name = "setRandom";
          break;
        }
        case 4: {
          const G o = make_elem<G>(gen_coeffs<S>(l, r, am[r.below(7)], r.below(3)));
          m         = o;
          val       = o;
          name      = "=value";
          break;
        }
        case 5: {
          // assignment from another view (Map and const Map sources)
          Eigen::Matrix<S, R, 1> other = gen_coeffs<S>(l, r, am[r.below(7)], r.below(3)).template cast<S>();
          if (r.coin()) {
            smooth::Map<G> src(other.data());
            m   = src;
            val = src;
            name = "=map";
          } else {
            smooth::Map<const G> src(other.data());
            m   = src;
            val = src;
            name = "=constmap";
          }
          break;
        }
        case 6: {
          Eigen::Matrix<S, R, 1> cc = gen_coeffs<S>(l, r, am[r.below(7)], r.below(3)).template cast<S>();
          m.coeffs()   = cc;
          val.coeffs() = cc;
          name         = "coeffs()=";
          break;
        }
        case 8: {
          // the right operand is (a view of) the destination itself: value semantics = operand read before the write
          const G cp = val;
          val *= cp;
          switch (r.below(3)) {
            case 0: { smooth::Map<const G> same(A.view()); m *= same; name = "*=constmap_of_self"; break; }
            case 1: { smooth::Map<G> same(A.view()); m *= same; name = "*=map_of_self"; break; }
            default: m *= m; name = "*=self";
          }
          break;
        }
        case 9: {
          switch (r.below(4)) {
            case 0: m = m * m; val = val * val; name = "=self*self"; break;
            case 1: m = m.inverse(); val = val.inverse(); name = "=self.inverse"; break;
            case 2: { smooth::Map<const G> same(A.view()); m = same; name = "=constmap_of_self"; break; }
            default: { smooth::Map<const G> same(A.view()); m = same * m; val = val * val; name = "=constmap_of_self*self"; }
          }
          break;
        }
        default: {
          // a write through a sub-part view: only its own sub-range may change
          int count = 0;
          for_each_subview<G>([&](const char *, int, int, auto &&) { ++count; });
          if (count == 0) {
            m.setIdentity();
            val.setIdentity();
            name = "setIdentity";
            break;
          }
          const int pick = r.below(count);
          int at = 0;
          for_each_subview<G>([&](const char * nm, int o, int len, auto && fn) {
            if (at++ != pick) return;
            Rng r1 = r, r2 = r;  // same random stream for both storages
            fn(m, r1);
            fn(val, r2);
            r    = r1;
            lo   = o;
            hi   = o + len;
            name = nm;
          });
        }
      }
      hist += name + ";";
      // the viewed coefficients follow the value history (bit-equal expected, 4 ulp allowed)
      A.unpoison();
      Eigen::Matrix<S, R, 1> now;
      for (int i = 0; i < R; ++i) now(i) = A.view()[i];
      rep.judge(T + ".history." + name, st, ulps<S>(toL(now), toL(val.coeffs())), 4, det);
      rep.judge(T + ".writes_only_own_range." + name, st, A.damaged(lo, hi), 0, det);
      A.commit(lo, hi);
      A.poison();
    }
    A.unpoison();
  });

  // ---- in-place composition whose operand partially overlaps the destination (two views of one buffer, shifted)
  rep.run_stream(T + ".overlap", NQ(rep, 300, 10000), [&](Rng & r, long idx) {
    std::vector<S> buf(size_t(3 * R + 2));
    const int a = R + 1, sh = 1 + r.below(R);  // destination at a, operand at a-sh or a+sh (|shift| <= R)
    const int b = r.coin() ? a - sh : a + sh;
    // valid elements at both places where possible (the later write wins in the shared part), else raw contents
    const Vec ca = gen_coeffs<S>(l, r, am[r.below(7)], r.below(4)), cb = gen_coeffs<S>(l, r, am[r.below(7)], r.below(4));
    for (auto & x : buf) x = S(r.sym());
    const bool a_last = r.coin();
    if (a_last) {
      for (int i = 0; i < R; ++i) buf[size_t(b + i)] = S(cb(i));
      for (int i = 0; i < R; ++i) buf[size_t(a + i)] = S(ca(i));
    } else {
      for (int i = 0; i < R; ++i) buf[size_t(a + i)] = S(ca(i));
      for (int i = 0; i < R; ++i) buf[size_t(b + i)] = S(cb(i));
    }
    const std::vector<S> before = buf;
    G va, vb;
    for (int i = 0; i < R; ++i) { va.coeffs()(i) = buf[size_t(a + i)]; vb.coeffs()(i) = buf[size_t(b + i)]; }
    const std::string st = "shift=" + std::string(b < a ? "-" : "+") + (sh == R ? "R" : sh == 1 ? "1" : "mid");
    auto det = [&]() {
      return JObj().str("type", T).raw("dest", hexv(toL(va.coeffs()))).raw("operand", hexv(toL(vb.coeffs()))).integer("shift", b - a).done();
    };
    rep.note_input(Report::hash_vec(toL(va.coeffs()), Report::hash_vec(toL(vb.coeffs()), uint64_t(b - a + 100))), true);
    smooth::Map<G> m(buf.data() + a);
    const bool cm = idx % 2 == 0;
    if (cm) { smooth::Map<const G> o(buf.data() + b); m *= o; } else { smooth::Map<G> o(buf.data() + b); m *= o; }
    G want = va;
    want *= vb;
    bool fin = true;
    for (int i = 0; i < R; ++i) fin = fin && std::isfinite(double(want.coeffs()(i)));
    if (!fin) { rep.count("C16.overlap.nonfinite_skipped"); return; }
    Eigen::Matrix<S, R, 1> now;
    for (int i = 0; i < R; ++i) now(i) = buf[size_t(a + i)];
    rep.judge(T + ".overlap.*=" + (cm ? "constmap" : "map"), st, ulps<S>(toL(now), toL(want.coeffs())), 4, det);
    int dmg = 0;
    for (int i = 0; i < int(buf.size()); ++i)
      if ((i < a || i >= a + R) && std::memcmp(&buf[size_t(i)], &before[size_t(i)], sizeof(S)) != 0) ++dmg;
    rep.judge(T + ".overlap.writes_only_own_range", st, dmg, 0, det);
  });

  // ---- const views on read-only pages flush against inaccessible pages
  rep.run_stream(T + ".readonly_pages", NQ(rep, 200, 5000), [&](Rng & r, long idx) {
    const Vec c1 = gen_coeffs<S>(l, r, am[r.below(7)], r.below(4)), c2 = gen_coeffs<S>(l, r, am[r.below(7)], r.below(4));
    const Tangent as = gen_tangent<S>(l, r, R_GENERIC, 1).template cast<S>();
    const Eigen::Matrix<S, -1, 1> s1 = c1.template cast<S>(), s2 = c2.template cast<S>();
    RoPages<S> P1(s1, idx % 2 == 0), P2(s2, idx % 2 == 1);
    const G v1 = make_elem<G>(c1), v2 = make_elem<G>(c2);
    const std::string st = idx % 2 == 0 ? "flush_end" : "flush_start";
    auto det = [&]() { return JObj().str("type", T).raw("g1", hexv(c1)).raw("g2", hexv(c2)).done(); };
    rep.note_input(Report::hash_vec(c2, Report::hash_vec(c1, 77)), true);
    smooth::Map<const G> k1(P1.ptr), k2(P2.ptr);
    L w = 0;
    w   = std::max(w, ulps<S>(toL((k1 * k2).coeffs()), toL((v1 * v2).coeffs())));
    w   = std::max(w, ulps<S>(toL(k1.inverse().coeffs()), toL(v1.inverse().coeffs())));
    w   = std::max(w, ulps<S>(toL(k1.log()), toL(v1.log())));
    w   = std::max(w, ulps<S>(toL(k1.Ad()), toL(v1.Ad())));
    w   = std::max(w, ulps<S>(toL(k1.matrix()), toL(v1.matrix())));
    w   = std::max(w, ulps<S>(toL((k1 + as).coeffs()), toL((v1 + as).coeffs())));
    w   = std::max(w, ulps<S>(toL((k1 - k2).eval()), toL((v1 - v2).eval())));
    w   = std::max(w, ulps<S>(toL(G(k1).coeffs()), c1));
    w   = std::max(w, ulps<S>(toL(k1.template cast<double>().coeffs()), toL(v1.template cast<double>().coeffs())));
    if constexpr (requires { k1.so3(); }) w = std::max(w, ulps<S>(toL(k1.so3().log()), toL(v1.so3().log())));
    if constexpr (requires { k1.so2(); }) w = std::max(w, ulps<S>(toL(k1.so2().log()), toL(v1.so2().log())));
    if constexpr (ActDim<G>::value > 0) {
      Eigen::Matrix<S, ActDim<G>::value, 1> p;
      for (int i = 0; i < p.size(); ++i) p(i) = S(r.sym());
      w = std::max(w, ulps<S>(toL((k1 * p).eval()), toL((v1 * p).eval())));
    }
    rep.judge(T + ".readonly_pages.same_results", st, w, 4, det);
  });
}

int main(int argc, char ** argv)
{
  Args args = parse_args(argc, argv);
  Report rep(args);
  using namespace smooth;
#if TS == 0
  map_monitor<SO2d>(rep);
  map_monitor<SO3d>(rep);
  map_monitor<SE2d>(rep);
  map_monitor<SE3d>(rep);
  map_monitor<C1d>(rep);
  map_monitor<Galileid>(rep);
  map_monitor<SE_K_3<double, 2>>(rep);
#else
  map_monitor<SO3f>(rep);
  map_monitor<SE2f>(rep);
  map_monitor<SE3f>(rep);
  map_monitor<Galileif>(rep);
  map_monitor<SE_K_3<float, 3>>(rep);
  map_monitor<Bundle<SE2d, Eigen::Vector2d, SO3d>>(rep);
  map_monitor<Bundle<SE2f, Eigen::Vector2f, SO3f>>(rep);
#endif
  rep.write();
  return 0;
}
