// Common runtime for the monitor binaries: PRNG, case runner, report (JSON), abort attribution.
#pragma once

#include <algorithm>
#include <cinttypes>
#include <cmath>
#include <csignal>
#include <cstdint>
#include <cstdio>
#include <cstdlib>
#include <cstring>
#include <fcntl.h>
#include <functional>
#include <map>
#include <set>
#include <sstream>
#include <string>
#include <unistd.h>
#include <unordered_set>
#include <vector>

namespace vh {

// ------------------------------------------------------------------ hashing / PRNG
inline uint64_t splitmix(uint64_t & x)
{
  uint64_t z = (x += 0x9E3779B97F4A7C15ull);
  z          = (z ^ (z >> 30)) * 0xBF58476D1CE4E5B9ull;
  z          = (z ^ (z >> 27)) * 0x94D049BB133111EBull;
  return z ^ (z >> 31);
}
inline uint64_t hash_bytes(const void * p, size_t n, uint64_t h = 0xcbf29ce484222325ull)
{
  const unsigned char * c = static_cast<const unsigned char *>(p);
  for (size_t i = 0; i < n; ++i) {
    h ^= c[i];
    h *= 0x100000001b3ull;
  }
  return h;
}
inline uint64_t hash_str(const std::string & s) { return hash_bytes(s.data(), s.size()); }

struct Rng
{
  uint64_t s[4];
  Rng(uint64_t seed, const std::string & stream, uint64_t idx)
  {
    uint64_t x = seed * 0x9E3779B97F4A7C15ull ^ hash_str(stream) ^ (idx * 0xD6E8FEB86659FD93ull);
    for (auto & v : s) v = splitmix(x);
  }
  static uint64_t rotl(uint64_t x, int k) { return (x << k) | (x >> (64 - k)); }
  uint64_t next()
  {
    const uint64_t r = rotl(s[1] * 5, 7) * 9, t = s[1] << 17;
    s[2] ^= s[0];
    s[3] ^= s[1];
    s[1] ^= s[2];
    s[0] ^= s[3];
    s[2] ^= t;
    s[3] = rotl(s[3], 45);
    return r;
  }
  double uni() { return double(next() >> 11) * (1.0 / 9007199254740992.0); }  // [0,1)
  double sym() { return 2 * uni() - 1; }
  double range(double a, double b) { return a + (b - a) * uni(); }
  double loguni(double a, double b) { return std::exp(range(std::log(a), std::log(b))); }
  int below(int n) { return n <= 0 ? 0 : int(next() % uint64_t(n)); }
  bool coin(double p = 0.5) { return uni() < p; }
  double gauss()
  {
    double u1 = uni(), u2 = uni();
    if (u1 < 1e-300) u1 = 1e-300;
    return std::sqrt(-2 * std::log(u1)) * std::cos(6.283185307179586 * u2);
  }
};

// ------------------------------------------------------------------ JSON helpers
inline std::string jesc(const std::string & s)
{
  std::string o = "\"";
  for (char c : s) {
    if (c == '"' || c == '\\') {
      o += '\\';
      o += c;
    } else if (c == '\n') {
      o += "\\n";
    } else if (static_cast<unsigned char>(c) < 0x20) {
      o += ' ';
    } else {
      o += c;
    }
  }
  return o + "\"";
}
inline std::string jnum(long double v)
{
  if (!(v == v)) return "\"nan\"";
  if (std::isinf(double(v)) || fabsl(v) > 1e300L) return v > 0 ? "\"inf\"" : "\"-inf\"";
  char b[64];
  snprintf(b, sizeof b, "%.17Lg", v);
  return b;
}
template<typename V>
inline std::string jvec(const V & v)
{
  std::string o = "[";
  for (long i = 0; i < long(v.size()); ++i) { o += (i ? "," : "") + jnum(static_cast<long double>(v(i))); }
  return o + "]";
}
template<typename V>
inline std::string jhexvec(const V & v)
{
  std::string o = "[";
  for (long i = 0; i < long(v.size()); ++i) {
    char b[64];
    snprintf(b, sizeof b, "\"%a\"", double(v(i)));
    o += (i ? "," : "") + std::string(b);
  }
  return o + "]";
}
struct JObj
{
  std::string s = "{";
  bool first    = true;
  JObj & raw(const std::string & k, const std::string & v)
  {
    s += (first ? "" : ",") + jesc(k) + ":" + v;
    first = false;
    return *this;
  }
  JObj & str(const std::string & k, const std::string & v) { return raw(k, jesc(v)); }
  JObj & num(const std::string & k, long double v) { return raw(k, jnum(v)); }
  JObj & integer(const std::string & k, long long v) { return raw(k, std::to_string(v)); }
  template<typename V>
  JObj & vec(const std::string & k, const V & v)
  {
    return raw(k, jvec(v));
  }
  std::string done() const { return s + "}"; }
};

// ------------------------------------------------------------------ arguments
struct Args
{
  std::string prop;
  uint64_t seed   = 1;
  int tier        = 0;  // 0 quick, 1 thorough
  int shard       = 0;
  int nshards     = 1;
  std::string out = "/dev/stdout";
  std::string only_stream;  // replay: run only this stream ...
  long only_case = -1;      // ... and this case
  std::set<std::string> skip;  // "stream:case" entries to skip (after an abort)
  std::string select;          // optional: comma separated substrings of stream names to run
  bool verbose = false;
};

inline Args parse_args(int argc, char ** argv)
{
  Args a;
  for (int i = 1; i < argc; ++i) {
    std::string k = argv[i];
    auto val      = [&]() -> std::string { return (i + 1 < argc) ? argv[++i] : ""; };
    if (k == "--prop") a.prop = val();
    else if (k == "--seed") a.seed = strtoull(val().c_str(), nullptr, 10);
    else if (k == "--tier") a.tier = (val() == "thorough") ? 1 : 0;
    else if (k == "--shard") {
      std::string v = val();
      sscanf(v.c_str(), "%d/%d", &a.shard, &a.nshards);
    } else if (k == "--out") a.out = val();
    else if (k == "--only") {
      std::string v = val();
      auto p        = v.rfind(':');
      a.only_stream = v.substr(0, p);
      a.only_case   = atol(v.substr(p + 1).c_str());
    } else if (k == "--skip") a.skip.insert(val());
    else if (k == "--select") a.select = val();
    else if (k == "-v") a.verbose = true;
  }
  return a;
}

// ------------------------------------------------------------------ current-case tracking for abort attribution
struct CurCase
{
  char stream[160];
  long idx;
  int fd;
  char path[512];
};
inline CurCase & cur()
{
  static CurCase c{};
  return c;
}
inline void abort_handler(int sig)
{
  CurCase & c = cur();
  char buf[800];
  int n = snprintf(buf, sizeof buf, "{\"t\":\"abort\",\"stream\":\"%s\",\"case\":%ld,\"sig\":%d}\n", c.stream, c.idx, sig);
  int fd = open(c.path, O_WRONLY | O_CREAT | O_TRUNC, 0644);
  if (fd >= 0) {
    ssize_t w = write(fd, buf, size_t(n));
    (void)w;
    close(fd);
  }
  signal(sig, SIG_DFL);
  raise(sig);
}

// ------------------------------------------------------------------ report
struct Cell
{
  long count = 0;
  long double max_err = 0, tol = 0;
};
struct Viol
{
  std::string site, stratum, stream, detail;
  long idx = 0, count = 0;
  long double err = 0, tol = 0;
};

struct Report
{
  Args args;
  std::map<std::string, Cell> cells;
  std::map<std::string, Viol> viols;  // key site|stratum -> worst
  std::map<std::string, long> counters;
  std::unordered_set<uint64_t> distinct;
  std::vector<std::string> samples;
  long long evaluations = 0;
  long long cases       = 0;
  std::string cur_stream;
  long cur_idx = 0;

  explicit Report(const Args & a) : args(a)
  {
    CurCase & c = cur();
    snprintf(c.path, sizeof c.path, "%s.abort", a.out.c_str());
    c.idx = -1;
    unlink(c.path);
    signal(SIGABRT, abort_handler);
    signal(SIGSEGV, abort_handler);
    signal(SIGBUS, abort_handler);
    signal(SIGFPE, abort_handler);
    signal(SIGILL, abort_handler);
  }

  bool stream_selected(const std::string & stream) const
  {
    if (!args.only_stream.empty()) return stream == args.only_stream;
    if (args.select.empty()) return true;
    std::stringstream ss(args.select);
    std::string tok;
    while (std::getline(ss, tok, ','))
      if (!tok.empty() && stream.find(tok) != std::string::npos) return true;
    return false;
  }

  // run n cases of a stream; fn(rng, idx)
  void run_stream(const std::string & stream, long n, const std::function<void(Rng &, long)> & fn)
  {
    if (!stream_selected(stream)) return;
    if (args.skip.count(stream + ":*")) {
      counters["stream_skipped_after_aborts"]++;
      return;
    }
    cur_stream = stream;
    for (long i = 0; i < n; ++i) {
      if (args.only_case >= 0) {
        if (i != args.only_case) continue;
      } else {
        if (i % args.nshards != args.shard) continue;
        if (!args.skip.empty() && args.skip.count(stream + ":" + std::to_string(i))) {
          counters["skipped_after_abort"]++;
          continue;
        }
      }
      cur_idx     = i;
      CurCase & c = cur();
      snprintf(c.stream, sizeof c.stream, "%s", stream.c_str());
      c.idx = i;
      Rng rng(args.seed, stream, uint64_t(i));
      ++cases;
      fn(rng, i);
    }
    cur().idx = -1;
  }

  void note_input(uint64_t h, bool nontrivial)
  {
    if (nontrivial) distinct.insert(h);
  }
  template<typename V>
  static uint64_t hash_vec(const V & v, uint64_t h = 0xcbf29ce484222325ull)
  {
    for (long i = 0; i < long(v.size()); ++i) {
      const double d = double(v(i));
      h              = hash_bytes(&d, sizeof d, h);
    }
    return h;
  }

  void count(const std::string & k, long n = 1) { counters[k] += n; }

  // judge one observation; detail() is only evaluated for violations and samples
  bool judge(const std::string & site, const std::string & stratum, long double err, long double tol,
    const std::function<std::string()> & detail)
  {
    ++evaluations;
    Cell & c = cells[site + "|" + stratum];
    c.count++;
    c.tol = tol;
    const bool bad = !(err <= tol);
    if (!(err <= c.max_err)) c.max_err = (err == err) ? err : INFINITY;
    if (bad) {
      Viol & v = viols[site + "|" + stratum];
      v.count++;
      const long double e = (err == err) ? err : INFINITY;
      if (v.count == 1 || e > v.err) {
        v.site    = site;
        v.stratum = stratum;
        v.stream  = cur_stream;
        v.idx     = cur_idx;
        v.err     = e;
        v.tol     = tol;
        v.detail  = detail();
      }
      if (args.verbose || args.only_case >= 0)
        fprintf(stderr, "VIOL %s|%s err=%.3Le tol=%.1Le %s\n", site.c_str(), stratum.c_str(), err, tol, detail().c_str());
    } else if (args.only_case >= 0) {
      fprintf(stderr, "ok   %s|%s err=%.3Le tol=%.1Le\n", site.c_str(), stratum.c_str(), err, tol);
    }
    if (samples.size() < 6 && (evaluations % 97 == 1)) {
      samples.push_back(JObj().str("site", site).str("stratum", stratum).str("stream", cur_stream).integer("case", cur_idx)
                          .num("err", err).num("tol", tol).raw("detail", detail()).done());
    }
    return !bad;
  }
  // boolean / exact check
  bool require(const std::string & site, const std::string & stratum, bool ok, const std::function<std::string()> & detail)
  {
    return judge(site, stratum, ok ? 0.0L : INFINITY, 0.5L, detail);
  }

  void write() const
  {
    FILE * f = fopen(args.out.c_str(), "w");
    if (!f) {
      perror("open out");
      exit(2);
    }
    fprintf(f, "{\"t\":\"summary\",\"prop\":%s,\"evaluations\":%lld,\"cases\":%lld,\"shard\":%d,\"nshards\":%d}\n",
      jesc(args.prop).c_str(), evaluations, cases, args.shard, args.nshards);
    for (auto & [k, c] : cells)
      fprintf(f, "{\"t\":\"cell\",\"key\":%s,\"count\":%ld,\"max_err\":%s,\"tol\":%s}\n", jesc(k).c_str(), c.count,
        jnum(c.max_err).c_str(), jnum(c.tol).c_str());
    for (auto & [k, v] : viols)
      fprintf(f, "{\"t\":\"viol\",\"site\":%s,\"stratum\":%s,\"stream\":%s,\"case\":%ld,\"count\":%ld,\"err\":%s,\"tol\":%s,\"detail\":%s}\n",
        jesc(v.site).c_str(), jesc(v.stratum).c_str(), jesc(v.stream).c_str(), v.idx, v.count, jnum(v.err).c_str(),
        jnum(v.tol).c_str(), v.detail.empty() ? "{}" : v.detail.c_str());
    for (auto & [k, n] : counters) fprintf(f, "{\"t\":\"counter\",\"key\":%s,\"n\":%ld}\n", jesc(k).c_str(), n);
    for (auto & s : samples) fprintf(f, "{\"t\":\"sample\",\"sample\":%s}\n", s.c_str());
    // distinct hashes: written in binary side file to merge across shards
    fprintf(f, "{\"t\":\"distinct\",\"n\":%zu}\n", distinct.size());
    fclose(f);
    std::string hp = args.out + ".hashes";
    FILE * h       = fopen(hp.c_str(), "wb");
    if (h) {
      for (uint64_t x : distinct) fwrite(&x, sizeof x, 1, h);
      fclose(h);
    }
  }
};

// decade label for strata
inline std::string decade(long double x)
{
  if (x == 0) return "0";
  const int d = int(std::floor(std::log10(double(fabsl(x)))));
  char b[32];
  snprintf(b, sizeof b, "1e%d", d);
  return b;
}

}  // namespace vh
