// Monitor C18: non-mutating operations are safe to run concurrently.
// Built with -fsanitize=thread (data races are reported by ThreadSanitizer into log files that the driver
// parses) and as a plain build (result equality at full speed). Threads share const objects created before
// they start; thread creation/join is the ONLY synchronisation (no atomics, locks or barriers in the monitor,
// which would add happens-before edges and hide races). Every thread must obtain exactly the results of a
// sequential run.
#include <thread>
#include <time.h>
#include <variant>

#include "harness/gen.hpp"

#include <smooth/diff.hpp>
#include <smooth/lie_sparse.hpp>
#include <smooth/manifolds.hpp>
#include <smooth/manifolds/any.hpp>
#include <smooth/manifolds/submanifold.hpp>
#include <smooth/optim.hpp>
#include <smooth/spline/bspline.hpp>
#include <smooth/spline/fit.hpp>
#include <smooth/spline/spline.hpp>

using namespace vh;
using namespace smooth;

struct Digest
{
  uint64_t h = 0xcbf29ce484222325ull;
  template<typename D>
  void mat(const Eigen::MatrixBase<D> & m)
  {
    for (Eigen::Index j = 0; j < m.cols(); ++j)
      for (Eigen::Index i = 0; i < m.rows(); ++i) {
        const double v = double(m(i, j));
        h              = hash_bytes(&v, sizeof v, h);
      }
  }
  template<typename G>
  void grp(const G & g)
  {
    mat(g.coeffs());
  }
  void num(double v) { h = hash_bytes(&v, sizeof v, h); }
};

// shared, immutable after construction
struct Shared
{
  std::vector<SE3d> se3;
  std::vector<SO3d> so3;
  std::vector<Galileid> gal;
  std::vector<Eigen::Matrix<double, 6, 1>> t6;
  std::vector<Eigen::Matrix<double, 10, 1>> t10;
  Eigen::VectorXd vx;
  std::vector<SO3d> vec_so3;
  std::variant<SO3d, Eigen::Vector2d> var;
  std::unique_ptr<SubManifold<SE3d>> sub, sub2;
  std::unique_ptr<AnyManifold> any, any2;
  Spline<3, SE3d> spline;
  Spline<3, Eigen::Vector2d> spline_r2;
  Spline<3, SE3d> spline_cc;  // concatenation of cropped pieces: every segment starts inside a polynomial piece
  std::unique_ptr<BSpline<3, SE2d>> bspline;
  std::vector<double> fit_ts;
  std::vector<SE2d> fit_gs;
  // trust-region step problems on shared const data: a well-posed sparse J, and a rank-deficient one (duplicated
  // columns) that takes the solver's singular fallback path when lambda is at rounding level
  Eigen::SparseMatrix<double> Jsp, Jsp_sing;
  Eigen::VectorXd dsp, rsp;
};

static Shared make_shared_state(Rng & r)
{
  Shared s;
  const LayoutP l3 = TI<SE3d>::layout(), lo = TI<SO3d>::layout(), lg = TI<Galileid>::layout(), l2 = TI<SE2d>::layout();
  for (int i = 0; i < 6; ++i) {
    s.se3.push_back(make_elem<SE3d>(gen_coeffs<double>(*l3, r, R_GENERIC, T_SMALL)));
    s.so3.push_back(make_elem<SO3d>(gen_coeffs<double>(*lo, r, R_GENERIC, 0)));
    s.gal.push_back(make_elem<Galileid>(gen_coeffs<double>(*lg, r, R_GENERIC, T_SMALL)));
    s.t6.push_back(gen_tangent<double>(*l3, r, R_MODERATE, T_SMALL).cast<double>());
    s.t10.push_back(gen_tangent<double>(*lg, r, R_MODERATE, T_SMALL).cast<double>());
  }
  s.vx      = Eigen::VectorXd::NullaryExpr(7, [&]() { return r.sym(); });
  s.vec_so3 = s.so3;
  s.var     = s.so3[0];
  Eigen::VectorXi fd(2);
  fd << 1, 4;
  s.sub  = std::make_unique<SubManifold<SE3d>>(s.se3[0], s.se3[1], fd);
  s.sub2 = std::make_unique<SubManifold<SE3d>>(s.se3[0], s.se3[2], fd);
  s.any  = std::make_unique<AnyManifold>(s.se3[3]);
  s.any2 = std::make_unique<AnyManifold>(s.se3[4]);
  for (int k = 0; k < 4; ++k) {
    Eigen::Matrix<double, 6, 3> V = Eigen::Matrix<double, 6, 3>::NullaryExpr([&]() { return 0.3 * r.sym(); });
    s.spline += Spline<3, SE3d>(0.5 + r.uni(), V);
    Eigen::Matrix<double, 2, 3> W = Eigen::Matrix<double, 2, 3>::NullaryExpr([&]() { return r.sym(); });
    s.spline_r2 += Spline<3, Eigen::Vector2d>(0.5 + r.uni(), W);
  }
  for (int k = 0; k < 6; ++k) {
    const double T = s.spline.t_max(), ta = T * (0.05 + 0.9 * r.uni()), tb = std::min(T, ta + T * (0.05 + 0.3 * r.uni()));
    if (k % 2) s.spline_cc += s.spline.crop(ta, tb, true);
    else s.spline_cc.concat_global(s.spline.crop(ta, tb, false));
  }
  std::vector<SE2d> ctrl = {make_elem<SE2d>(gen_coeffs<double>(*l2, r, R_GENERIC, T_SMALL))};
  for (int i = 1; i < 12; ++i) ctrl.push_back(ctrl.back() + Eigen::Vector3d(0.3 * r.sym(), 0.3 * r.sym(), 0.3 * r.sym()));
  s.bspline = std::make_unique<BSpline<3, SE2d>>(0.5, 0.25, ctrl);
  {
    const int m = 30, n = 12;
    Eigen::MatrixXd Jd = Eigen::MatrixXd::NullaryExpr(m, n, [&]() { return r.coin(0.4) ? r.sym() : 0.0; });
    for (int j = 0; j < n; ++j) Jd(j, j) += 2;
    s.Jsp = Jd.sparseView();
    for (int j = n / 2; j < n; ++j) Jd.col(j) = Jd.col(j - n / 2);
    s.Jsp_sing = Jd.sparseView();
    s.Jsp.makeCompressed();
    s.Jsp_sing.makeCompressed();
    s.dsp = Eigen::VectorXd::NullaryExpr(n, [&]() { return 0.5 + r.uni(); });
    s.rsp = Eigen::VectorXd::NullaryExpr(m, [&]() { return r.sym(); });
  }
  s.fit_ts  = {0, 0.7, 1.1, 2.0, 2.9, 3.3};
  s.fit_gs  = std::vector<SE2d>(ctrl.begin(), ctrl.begin() + 6);
  return s;
}

// one iteration of every scenario; inputs depend on `it` only, so every thread computes the same values
static void work(const Shared & s, int it, unsigned mask, Digest & d, std::map<std::string, long> * opcount)
{
  auto cnt = [&](const char * k) {
    if (opcount) (*opcount)[k]++;
  };
  const size_t a = size_t(it) % s.se3.size(), b = size_t(it + 1) % s.se3.size();
  if (mask & 1u) {  // group and tangent functions
    d.grp(s.se3[a] * s.se3[b]);
    d.grp(s.se3[a].inverse());
    d.mat(s.se3[a].log());
    d.mat(s.se3[a].Ad());
    d.grp(SE3d::exp(s.t6[a]));
    d.mat(SE3d::dr_exp(s.t6[a]));
    d.mat(SE3d::dr_expinv(s.t6[b]));
    d.mat(SE3d::d2r_exp(s.t6[a]));
    d.grp(s.gal[a] * s.gal[b]);
    d.mat(s.gal[a].log());
    d.mat(Galileid::dr_exp(s.t10[a]));
    d.mat(s.gal[b].Ad());
    d.grp(s.so3[a] * s.so3[b]);
    d.mat(SO3d::d2r_expinv(Eigen::Vector3d(s.t6[a].tail<3>())));
    cnt("group_tangent_functions");
  }
  if (mask & 2u) {  // manifold interface on shared const objects
    d.grp(rplus(s.se3[a], s.t6[b]));
    d.mat(rminus(s.se3[a], s.se3[b]));
    d.mat(rplus(s.vx, s.vx));
    d.num(double(dof(s.vx)));
    const auto v2 = rplus(s.vec_so3, Eigen::VectorXd::Constant(dof(s.vec_so3), 0.01 * (1 + it % 5)));
    for (auto & g : v2) d.grp(g);
    d.mat(rminus(v2, s.vec_so3));
    const auto w = rplus(s.var, Eigen::VectorXd::Constant(3, 0.02));
    d.grp(std::get<SO3d>(w));
    cnt("manifold_rplus_rminus");
  }
  if (mask & 4u) {  // SubManifold and AnyManifold
    const Eigen::VectorXd ar = Eigen::VectorXd::Constant(4, 0.01 * (1 + it % 7));
    const auto sp            = rplus(*s.sub, ar);
    d.grp(sp.m());
    d.mat(rminus(*s.sub, *s.sub2));
    d.mat(rminus(sp, *s.sub));
    d.num(double(dof(*s.sub)));
    const auto ap = rplus(*s.any, Eigen::VectorXd(s.t6[a]));
    d.grp(ap.get<SE3d>());
    d.mat(rminus(*s.any, *s.any2));
    d.num(double(dof(*s.any)));
    cnt("submanifold_anymanifold");
  }
  if (mask & 8u) {  // spline evaluation
    const double t = s.spline.t_max() * ((it * 37) % 101) / 100.0;
    Eigen::Matrix<double, 6, 1> v, ac;
    d.grp(s.spline(t, v, ac));
    d.mat(v);
    d.mat(ac);
    d.grp(s.spline.crop(0.3 * t, t, it % 2 == 0)(0.1));
    {
      const double tc = s.spline_cc.t_max() * ((it * 53) % 97) / 96.0;
      d.grp(s.spline_cc(tc, v, ac));
      d.mat(v);
      d.grp(s.spline_cc(s.spline_cc.t_max() - tc));
    }
    d.mat(s.spline_r2.arclength(s.spline_r2.t_max() * ((it * 13) % 17) / 16.0));
    Eigen::Vector3d bv, ba;
    d.grp((*s.bspline)(s.bspline->t_min() + (s.bspline->t_max() - s.bspline->t_min()) * ((it * 29) % 53) / 52.0, bv, ba));
    d.mat(bv);
    d.mat(ba);
    cnt("spline_bspline_evaluation");
  }
  if (mask & 16u) {  // sparse derivative evaluation into thread-private outputs
    using B = Bundle<SE3d, SO3d, Eigen::Vector2d>;
    Eigen::Matrix<double, 11, 1> ab;
    ab << s.t6[a], s.t6[b].tail<3>(), 0.1, 0.2;
    Eigen::SparseMatrix<double> J = d_exp_sparse_pattern<B>, H = d2_exp_sparse_pattern<B>, A = ad_sparse_pattern<B>;
    dr_exp_sparse<B>(J, ab);
    d.mat(Eigen::MatrixXd(J));
    dr_expinv_sparse<B>(J, ab);
    d.mat(Eigen::MatrixXd(J));
    d2r_exp_sparse<B>(H, ab);
    d.mat(Eigen::MatrixXd(H));
    ad_sparse<B>(A, ab);
    d.mat(Eigen::MatrixXd(A));
    Eigen::SparseMatrix<double> J3 = d_exp_sparse_pattern<SE3d>;
    dr_exp_sparse<SE3d>(J3, s.t6[a]);
    d.mat(Eigen::MatrixXd(J3));
    cnt("sparse_derivatives");
  }
  if (mask & 32u) {  // independent differentiation / optimisation / fitting
    SE3d g1 = s.se3[a], g2 = s.se3[b];
    const auto [val, J] = diff::dr<1, diff::Type::Numerical>([](const auto & x, const auto & y) { return (x * y).log(); }, wrt(g1, g2));
    d.mat(val);
    d.mat(J);
    SO3d x = s.so3[a];
    const SO3d target = s.so3[b];
    MinimizeOptions opts;
    opts.max_iter = 8;
    minimize([&target](const auto & g) -> Eigen::Vector3d { return g - target; }, wrt(x), opts);
    d.grp(x);
    if (it % 4 == 0) {
      const auto c = fit_spline_cubic(s.fit_ts, s.fit_gs);
      d.grp(c(1.3));
      const auto bs = fit_bspline<3>(s.fit_ts, s.fit_gs, 1.0);
      d.grp(bs(1.3));
    }
    cnt("diff_minimize_fit");
  }
  if (mask & (16u | 32u)) {  // trust-region steps on shared const sparse / dense problems
    static const double lams[] = {1e-4, 1.0, 0.0, 1e-18, 1e3};
    const double lam = lams[it % 5];
    double dphi = 0;
    d.mat(solve_linear_ldlt(s.Jsp, s.dsp, s.rsp, std::max(lam, 1e-12), dphi));
    d.num(dphi);
    d.mat(solve_linear_ldlt(s.Jsp_sing, s.dsp, s.rsp, lam, dphi));  // lambda ~ 0: singular fallback path
    d.mat(solve_linear_ldlt(Eigen::MatrixXd(s.Jsp_sing), s.dsp, s.rsp, std::max(lam, 1e-6)));
    const auto [dx, l2] = solve_trust_region(s.Jsp, s.dsp, s.rsp, 1.0 + it % 3);
    d.mat(dx);
    d.num(l2);
    cnt("trust_region_steps");
  }
}

struct ThreadLog
{
  std::vector<uint64_t> digests;
  std::vector<std::pair<double, double>> spans;  // [start, end] per iteration, thread-local clock reads
};
static double now()
{
  timespec ts;
  clock_gettime(CLOCK_MONOTONIC, &ts);
  return double(ts.tv_sec) + 1e-9 * double(ts.tv_nsec);
}

int main(int argc, char ** argv)
{
  Args args = parse_args(argc, argv);
  Report rep(args);
#if defined(__SANITIZE_THREAD__)
  const bool tsan = true;
#else
  const bool tsan = false;
#endif
  const long ncases = args.tier ? (tsan ? 1000 : 1600) : (tsan ? 10 : 16);
  static const unsigned masks[] = {63u, 4u, 8u | 16u, 1u | 2u, 32u, 4u | 8u, 63u, 16u};
  rep.run_stream(tsan ? "concurrent.tsan" : "concurrent.plain", ncases, [&](Rng & r, long idx) {
    const Shared s     = make_shared_state(r);
    const int nthreads = 2 + int((idx * 5 + args.shard) % 15);
    // the very first case of a process runs everything: first use of every function-local static happens inside the racing threads
    const unsigned mask = rep.cases == 1 ? 63u : masks[idx % 8];
    const int iters     = tsan ? 12 : ((mask & 32u) ? 100 : 1500);
    // common start time read from each thread's own clock (no synchronisation primitive involved)
    const double start_at = now() + 0.002 * nthreads + 0.005;
    std::vector<ThreadLog> logs(size_t(nthreads), ThreadLog{});
    {
      std::vector<std::thread> th;
      for (int t = 0; t < nthreads; ++t)
        th.emplace_back([&s, &logs, t, iters, mask, start_at]() {
          ThreadLog & lg = logs[size_t(t)];
          lg.digests.reserve(size_t(iters));
          lg.spans.reserve(size_t(iters));
          while (now() < start_at) {}
          // every thread walks the same set of work items in its own rotated order, so that at any moment different
          // threads use the shared objects with different arguments (state that depends on the last call would show)
          lg.digests.assign(size_t(iters), 0);
          for (int k = 0; k < iters; ++k) {
            const int it = (k + t * 7) % iters;
            Digest d;
            const double t0 = now();
            work(s, it, mask, d, nullptr);
            lg.spans.emplace_back(t0, now());
            lg.digests[size_t(it)] = d.h;
          }
        });
      for (auto & t : th) t.join();
    }
    // sequential reference, made AFTER the concurrent run
    std::vector<uint64_t> ref;
    std::map<std::string, long> opcount;
    for (int it = 0; it < iters; ++it) {
      Digest d;
      work(s, it, mask, d, &opcount);
      ref.push_back(d.h);
    }
    long mismatches = 0;
    for (auto & lg : logs)
      for (int it = 0; it < iters; ++it)
        if (lg.digests[size_t(it)] != ref[size_t(it)]) ++mismatches;
    // overlap actually observed: pairs of iterations from different threads whose [start,end] intervals intersect
    long overlapping = 0;
    for (int t1 = 0; t1 < nthreads; ++t1)
      for (int t2 = t1 + 1; t2 < nthreads; ++t2)
      {
        // two-pointer sweep over the (time-ordered) spans of both threads
        const auto & A = logs[size_t(t1)].spans;
        const auto & B = logs[size_t(t2)].spans;
        size_t i = 0, j = 0;
        while (i < A.size() && j < B.size()) {
          if (A[i].first < B[j].second && B[j].first < A[i].second) ++overlapping;
          if (A[i].second < B[j].second) ++i;
          else ++j;
        }
      }
    const std::string st = "threads=" + std::to_string(nthreads <= 4 ? nthreads : (nthreads <= 8 ? 8 : 16)) + ",mask=" + std::to_string(mask);
    auto det = [&]() { return JObj().integer("threads", nthreads).integer("mask", mask).integer("iters", iters).integer("mismatching_results", mismatches).integer("overlapping_pairs", overlapping).done(); };
    // the interleaving actually observed: thread ids in the order their iterations started (merged thread-local clocks)
    {
      std::vector<std::pair<double, int>> starts;
      for (int t = 0; t < nthreads; ++t)
        for (auto & sp : logs[size_t(t)].spans) starts.emplace_back(sp.first, t);
      std::sort(starts.begin(), starts.end());
      uint64_t h = 0xcbf29ce484222325ull;
      long switches = 0;
      for (size_t k = 0; k < starts.size(); ++k) {
        h = hash_bytes(&starts[k].second, sizeof(int), h);
        if (k && starts[k].second != starts[k - 1].second) ++switches;
      }
      rep.note_input(h, overlapping > 0);  // distinct_nontrivial = distinct observed start orderings with real overlap
      rep.count("C18.thread_switches_in_start_order", switches);
    }
    rep.judge(std::string(tsan ? "tsan" : "plain") + ".results_equal_sequential", st, L(mismatches), 0, det);
    rep.count("C18.overlapping_operation_pairs", overlapping);
    rep.count("C18.thread_iterations", long(nthreads) * iters);
    rep.count("C18.threads_started", nthreads);
    for (auto & [k, n] : opcount) rep.count("C18.ops." + k, n * nthreads);
    // a concurrent run in which nothing overlapped proves nothing about concurrency (it happens on a loaded machine when a
    // thread finishes its iterations inside one time slice): that is an inconclusive case, never a violation. The driver
    // demands that at least 80 % of the cases overlapped (floor "ratios"), otherwise the whole check is inconclusive.
    rep.count("C18.cases_run");
    if (overlapping > 0) rep.count("C18.cases_with_overlap");
    else rep.count("C18.cases_without_overlap");
  });
  rep.write();
  return 0;
}
