// Self tests of the oracle library. No smooth code involved.
#include <cmath>
#include <cstdio>
#include <cstdlib>
#include <functional>

#include "oracle.hpp"

namespace orc {

namespace {
struct R64
{
  unsigned long long s;
  explicit R64(unsigned long long x) : s(x * 0x9E3779B97F4A7C15ull + 1) {}
  unsigned long long next()
  {
    s ^= s << 13;
    s ^= s >> 7;
    s ^= s << 17;
    return s;
  }
  L uni() { return L(next() >> 11) / L(1ull << 53); }  // [0,1)
  L sym() { return 2 * uni() - 1; }
};

int fails = 0;
bool verb = false;
void check(const char * what, L err, L tol)
{
  const bool ok = (err == err) && err <= tol;
  if (!ok) ++fails;
  if (!ok || verb) fprintf(stderr, "[oracle-selftest] %-44s err=%.3Le tol=%.1Le %s\n", what, err, tol, ok ? "ok" : "FAIL");
}

Mat rodrigues(const Vec & w)
{
  const L th = w.norm();
  Mat W(3, 3);
  W << 0, -w(2), w(1), w(2), 0, -w(0), -w(1), w(0), 0;
  L A, B;
  if (th < 1e-5L) {
    const L t2 = th * th;
    A = 1 - t2 / 6 + t2 * t2 / 120;
    B = 0.5L - t2 / 24 + t2 * t2 / 720;
  } else {
    A = sinl(th) / th;
    B = (1 - cosl(th)) / (th * th);
  }
  return eye(3) + A * W + B * W * W;
}

Vec rand_tangent(const Layout & l, R64 & r, L rotnorm, L trscale)
{
  Vec a(l.dof);
  for (int i = 0; i < l.dof; ++i) a(i) = trscale * r.sym();
  // scale rotation-like coordinates per quaternion/complex block: simply rescale all rot coords jointly per group of 3/1
  std::vector<int> rot = l.rot;
  size_t i = 0;
  while (i < rot.size()) {
    // group consecutive indices
    size_t j = i + 1;
    while (j < rot.size() && rot[j] == rot[j - 1] + 1 && j - i < 3) ++j;
    L n = 0;
    for (size_t k = i; k < j; ++k) {
      a(rot[k]) = r.sym();
      n += a(rot[k]) * a(rot[k]);
    }
    n = sqrtl(n);
    for (size_t k = i; k < j; ++k) a(rot[k]) *= (n > 0 ? rotnorm / n : 0);
    i = j;
  }
  return a;
}
}  // namespace

int selftest(bool verbose)
{
  fails = 0;
  verb  = verbose;
  R64 r(12345);

  // 1. expm vs Rodrigues
  const LayoutP lso3 = L_SO3();
  for (L th : {0.0L, 1e-12L, 1e-6L, 1e-4L, 1e-2L, 1.0L, 3.0L, 3.14159265358979L, 10.0L, 50.0L}) {
    Vec w(3);
    w << r.sym(), r.sym(), r.sym();
    w *= th / w.norm();
    const Mat E = expm(lso3->hat(w));
    check("expm(SO3) vs Rodrigues", maxabs(E - rodrigues(w)), 2e-17L * (1 + th * 4));
    // orthogonality
    check("expm(SO3) orthogonal", maxabs(E * E.transpose() - eye(3)), 2e-17L * (1 + th * 4));
  }
  // quaternion <-> R
  for (int t = 0; t < 50; ++t) {
    Vec q(4);
    q << r.sym(), r.sym(), r.sym(), r.sym();
    q /= q.norm();
    if (q(3) < 0) q = -q;
    check("R_to_quat(quat_to_R)", maxabs(R_to_quat(quat_to_R(q)) - q), 1e-17L);
  }

  std::vector<LayoutP> ls = {L_SO2(), L_SO3(), L_SE2(), L_SE3(), L_C1(), L_Galilei(), L_SEK3(1), L_SEK3(2), L_SEK3(3),
    L_Tn(3), L_Bundle({L_SO3(), L_Tn(2), L_SE2()}), L_Bundle({L_C1(), L_Bundle({L_SE3(), L_SO2()}), L_Tn(1)})};

  for (const auto & lp : ls) {
    const Layout & l = *lp;
    for (int t = 0; t < 6; ++t) {
      const L rn   = (t == 0) ? 0 : (t == 1 ? 1e-7L : (t == 2 ? 1e-3L : 0.3L + 2.5L * r.uni()));
      const L ts   = (t % 2) ? 1 : 30;
      const Vec a  = rand_tangent(l, r, rn, ts);
      const Vec b  = rand_tangent(l, r, 0.7L, 2);
      const Mat Ha = l.hat(a);
      check((l.name + " vee(hat)").c_str(), maxabs(l.vee(Ha) - a), 0);
      check((l.name + " hat linear").c_str(), maxabs(l.hat(a + 3 * b) - Ha - 3 * l.hat(b)), 1e-17L * (1 + ts));
      const Mat E = expm(Ha);
      const Mat Em = expm(-Ha);
      check((l.name + " expm(A)expm(-A)=I").c_str(), maxabs(E * Em - eye(l.dim)) / std::max<L>(1, maxabs(E) * maxabs(Em)), 1e-16L * (1 + ts * ts));
      check((l.name + " expm(2A)=expm(A)^2").c_str(), err_rel1(expm(2 * Ha), E * E), 1e-16L * (1 + ts));
      check((l.name + " logm(expm)").c_str(), err_rel1(l.vee(logm(E)), a), 3e-16L * (1 + ts));
      check((l.name + " matrix(from_matrix)").c_str(), err_rel1(l.matrix(l.from_matrix(E)), E), 1e-17L * (1 + ts));
      check((l.name + " matrix(identity)").c_str(), maxabs(l.matrix(l.identity_coeffs()) - eye(l.dim)), 0);
      // Ad(exp a) = expm(ad a)
      check((l.name + " Ad(exp a)=expm(ad a)").c_str(), err_rel1(Ad_ref(l, E), expm(ad_ref(l, a))), 1e-15L * (1 + ts * ts));

      // dr_exp vs finite differences of the group exponential
      const int n = l.dof;
      const Mat J = dr_exp_ref(l, a);
      const Mat Ei = inv(E);
      const L h    = 2e-4L;
      Mat Jfd(n, n);
      auto f = [&](int j, L s) -> Vec { return l.vee(logm(Ei * expm(l.hat(a + s * unit(n, j))))); };
      for (int j = 0; j < n; ++j) Jfd.col(j) = (-f(j, 2 * h) + 8 * f(j, h) - 8 * f(j, -h) + f(j, -2 * h)) / (12 * h);
      check((l.name + " dr_exp_ref vs FD").c_str(), err_rel1(J, Jfd), 3e-12L * (1 + ts * ts));
      check((l.name + " dr_expinv*dr_exp=I").c_str(), maxabs(dr_expinv_ref(l, a) * J - eye(n)), 1e-15L * (1 + ts * ts));
      check((l.name + " dl_exp=Ad(exp)dr_exp").c_str(), err_rel1(dl_exp_ref(l, a), Ad_ref(l, E) * J), 1e-15L * (1 + ts * ts));
      if (n <= 6) {
        for (int k = 0; k < n; ++k) {
          const Mat D   = d_dr_exp_ref(l, a, k);
          const L h2    = 1e-4L;
          auto g        = [&](L s) { return dr_exp_ref(l, a + s * unit(n, k)); };
          const Mat Dfd = (-g(2 * h2) + 8 * g(h2) - 8 * g(-h2) + g(-2 * h2)) / (12 * h2);
          check((l.name + " d_dr_exp_ref vs FD").c_str(), err_rel1(D, Dfd), 1e-12L * (1 + ts * ts));
          auto gi        = [&](L s) { return dr_expinv_ref(l, a + s * unit(n, k)); };
          const Mat Difd = (-gi(2 * h2) + 8 * gi(h2) - 8 * gi(-h2) + gi(-2 * h2)) / (12 * h2);
          check((l.name + " d_dr_expinv_ref vs FD").c_str(), err_rel1(d_dr_expinv_ref(l, a, k), Difd), 1e-11L * (1 + ts * ts * ts));
        }
      }
    }
  }

  // symmetric eigenvalues
  {
    Mat Q = expm(L_SO3()->hat((Vec(3) << 0.3L, -1.1L, 0.7L).finished()));
    Mat D = Mat::Zero(3, 3);
    D(0, 0) = 1e-12L; D(1, 1) = 2; D(2, 2) = 5e6L;
    const Vec ev = eigvals_sym(Q * D * Q.transpose());
    check("eigvals_sym small", fabsl(ev(0) - 1e-12L), 1e-18L * 5e6L);
    check("eigvals_sym large", fabsl(ev(2) - 5e6L) / 5e6L, 1e-17L);
    // scale invariance (tiny matrices must not stop the sweeps early)
    const Vec evt = eigvals_sym(1e-24L * (Q * D * Q.transpose()));
    check("eigvals_sym tiny scale small", fabsl(evt(0) / 1e-24L - 1e-12L), 1e-18L * 5e6L);
    check("eigvals_sym tiny scale large", fabsl(evt(2) / 1e-24L - 5e6L) / 5e6L, 1e-17L);
  }
  // jets
  {
    const LayoutP lp3 = L_SE3();
    const Layout & l  = *lp3;
    const Vec a1 = rand_tangent(l, r, 0.8L, 1), a2 = rand_tangent(l, r, 1.3L, 1);
    const Mat A1 = l.hat(a1), A2 = l.hat(a2);
    auto p1 = [](L u) { return 0.3L + 0.7L * u - 0.4L * u * u + 0.2L * u * u * u; };
    auto p2 = [](L u) { return -0.1L + 0.5L * u * u + 0.3L * u * u * u; };
    auto jet_at = [&](L u) {
      std::vector<L> s1 = {p1(u), 0.7L - 0.8L * u + 0.6L * u * u, -0.4L + 0.6L * u, 0.2L};
      std::vector<L> s2 = {p2(u), 1.0L * u + 0.9L * u * u, 0.5L + 0.9L * u, 0.3L};
      return jet_mul(jet_exp_scalar(A1, s1), jet_exp_scalar(A2, s2));
    };
    auto G = [&](L u) { return Mat(expm(p1(u) * A1) * expm(p2(u) * A2)); };
    const L u0 = 0.37L, h = 1e-4L;
    const Jet J = jet_at(u0);
    check("jet value", maxabs(J.c[0] - G(u0)), 1e-17L);
    const Mat d1 = (-G(u0 + 2 * h) + 8 * G(u0 + h) - 8 * G(u0 - h) + G(u0 - 2 * h)) / (12 * h);
    check("jet first derivative", maxabs(J.c[1] - d1), 1e-12L);
    const Mat d2 = (-G(u0 + 2 * h) + 16 * G(u0 + h) - 30 * G(u0) + 16 * G(u0 - h) - G(u0 - 2 * h)) / (12 * h * h);
    check("jet second derivative", maxabs(2 * J.c[2] - d2), 1e-9L);
    Vec v, ac, je;
    jet_body_derivs(l, J, v, ac, je);
    auto vel_at = [&](L u) {
      Vec vv, aa, jj;
      jet_body_derivs(l, jet_at(u), vv, aa, jj);
      return vv;
    };
    auto acc_at = [&](L u) {
      Vec vv, aa, jj;
      jet_body_derivs(l, jet_at(u), vv, aa, jj);
      return aa;
    };
    const Vec afd = (-vel_at(u0 + 2 * h) + 8 * vel_at(u0 + h) - 8 * vel_at(u0 - h) + vel_at(u0 - 2 * h)) / (12 * h);
    const Vec jfd = (-acc_at(u0 + 2 * h) + 8 * acc_at(u0 + h) - 8 * acc_at(u0 - h) + acc_at(u0 - 2 * h)) / (12 * h);
    check("jet body velocity = vee(G^-1 G')", maxabs(v - l.vee(inv(G(u0)) * d1)), 1e-12L);
    check("jet body acceleration vs FD", maxabs(ac - afd), 1e-11L);
    check("jet body jerk vs FD", maxabs(je - jfd), 1e-11L);
  }
  return fails;
}

}  // namespace orc

#ifdef ORACLE_SELFTEST_MAIN
int main(int argc, char **)
{
  const int f = orc::selftest(argc > 1);
  fprintf(stderr, "[oracle-selftest] failures=%d\n", f);
  return f ? 2 : 0;
}
#endif
