#include "oracle.hpp"

#include <Eigen/LU>
#include <algorithm>
#include <cmath>
#include <cstdio>
#include <stdexcept>

namespace orc {

Mat eye(int n) { return Mat::Identity(n, n); }

L maxabs(const Mat & A)
{
  L m = 0;
  for (int i = 0; i < A.rows(); ++i)
    for (int j = 0; j < A.cols(); ++j) {
      L v = fabsl(A(i, j));
      if (!(v <= m)) m = v;  // propagates NaN
    }
  return m;
}

static L infnorm(const Mat & A)
{
  L m = 0;
  for (int i = 0; i < A.rows(); ++i) {
    L s = 0;
    for (int j = 0; j < A.cols(); ++j) s += fabsl(A(i, j));
    if (s > m) m = s;
  }
  return m;
}

Mat expm(const Mat & A)
{
  const int n = int(A.rows());
  if (n == 0) return A;
  L nrm = infnorm(A);
  int s = 0;
  while (nrm > 0.25L) {
    nrm /= 2;
    ++s;
    if (s > 200) throw std::runtime_error("expm: norm too large");
  }
  const Mat B = A / powl(2.0L, s);
  // E = exp(B) - I by Taylor (keeps small parts accurate), squaring on E: (I+E)^2 - I = 2E + E^2
  Mat E    = B;
  Mat term = B;
  for (int k = 2; k <= 26; ++k) {
    term = (term * B) / L(k);
    E += term;
  }
  // squaring on E while it is small (keeps near-identity parts accurate), on X = I + E afterwards
  int i = 0;
  for (; i < s && maxabs(E) < 0.5L; ++i) { E = 2 * E + E * E; }
  Mat X = eye(n) + E;
  for (; i < s; ++i) { X = X * X; }
  return X;
}

Mat inv(const Mat & A)
{
  Eigen::FullPivLU<Mat> lu(A);
  Mat X = lu.inverse();
  // Newton-Schulz refinement: LU leaves an error of eps*cond(A) in every entry; for group matrices with a large
  // translation part (cond ~ |p|^2) that is far above the structured error eps*|A||X| a refinement step reaches
  if (A.rows() == A.cols() && X.allFinite()) {
    const Mat I = Mat::Identity(A.rows(), A.cols());
    for (int it = 0; it < 2; ++it) {
      const Mat E = I - A * X;
      if (!(maxabs(E) < 0.5L)) break;
      const Mat Xn = X + X * E;
      if (!(maxabs(I - A * Xn) <= maxabs(E))) break;
      X = Xn;
    }
  }
  return X;
}

Vec solve(const Mat & A, const Vec & b)
{
  Eigen::FullPivLU<Mat> lu(A);
  return lu.solve(b);
}

Vec eigvals_sym(const Mat & A0)
{
  const int n = int(A0.rows());
  Mat A       = (A0 + A0.transpose()) / 2;
  for (int sweep = 0; sweep < 60; ++sweep) {
    L off = 0;
    for (int p = 0; p < n; ++p)
      for (int q = p + 1; q < n; ++q) off += A(p, q) * A(p, q);
    if (off <= 1e-38L * maxabs(A) * maxabs(A)) break;  // relative: the scale of A is arbitrary (1e-26 ... 1e12)
    for (int p = 0; p < n; ++p)
      for (int q = p + 1; q < n; ++q) {
        if (A(p, q) == 0) continue;
        const L theta = (A(q, q) - A(p, p)) / (2 * A(p, q));
        const L t     = (theta >= 0 ? 1 : -1) / (fabsl(theta) + sqrtl(theta * theta + 1));
        const L c = 1 / sqrtl(t * t + 1), s = t * c;
        for (int k = 0; k < n; ++k) {
          const L akp = A(k, p), akq = A(k, q);
          A(k, p) = c * akp - s * akq;
          A(k, q) = s * akp + c * akq;
        }
        for (int k = 0; k < n; ++k) {
          const L apk = A(p, k), aqk = A(q, k);
          A(p, k) = c * apk - s * aqk;
          A(q, k) = s * apk + c * aqk;
        }
      }
  }
  Vec ev = A.diagonal();
  std::sort(ev.data(), ev.data() + n);
  return ev;
}

Mat sqrtm_db(const Mat & A)
{
  const int n = int(A.rows());
  Mat Y = A, Z = eye(n);
  for (int it = 0; it < 60; ++it) {
    const Mat Yi = inv(Y), Zi = inv(Z);
    const Mat Yn = (Y + Zi) / 2, Zn = (Z + Yi) / 2;
    const L d = maxabs(Yn - Y);
    Y = Yn;
    Z = Zn;
    if (d <= 4e-19L * (1 + maxabs(Y))) break;
  }
  return Y;
}

Mat logm(const Mat & A)
{
  const int n = int(A.rows());
  Mat X = A;
  int k = 0;
  while (maxabs(X - eye(n)) > 0.03L && k < 80) {
    X = sqrtm_db(X);
    ++k;
  }
  const Mat E = X - eye(n);
  Mat P = E, S = E;
  for (int j = 2; j <= 40; ++j) {
    P = P * E;
    S += ((j % 2 == 0) ? -1.0L : 1.0L) * P / L(j);
  }
  return S * powl(2.0L, k);
}

Vec unit(int n, int k)
{
  Vec e = Vec::Zero(n);
  e(k)  = 1;
  return e;
}

Vec Layout::act(const Mat & M, const Vec & v) const
{
  if (v.size() == dim) return M * v;
  if (v.size() == dim - 1) {
    Vec h(dim);
    h.head(dim - 1) = v;
    h(dim - 1)      = 1;
    return (M * h).head(dim - 1);
  }
  throw std::runtime_error("act: bad point size");
}

Mat quat_to_R(const Vec & q)
{
  const L x = q(0), y = q(1), z = q(2), w = q(3);
  Mat R(3, 3);
  R << 1 - 2 * (y * y + z * z), 2 * (x * y - w * z), 2 * (x * z + w * y),  //
    2 * (x * y + w * z), 1 - 2 * (x * x + z * z), 2 * (y * z - w * x),     //
    2 * (x * z - w * y), 2 * (y * z + w * x), 1 - 2 * (x * x + y * y);
  return R;
}

Vec R_to_quat(const Mat & R)
{
  // Shepperd's method
  Vec q(4);
  const L tr = R(0, 0) + R(1, 1) + R(2, 2);
  if (tr > 0) {
    L s  = sqrtl(tr + 1) * 2;
    q(3) = s / 4;
    q(0) = (R(2, 1) - R(1, 2)) / s;
    q(1) = (R(0, 2) - R(2, 0)) / s;
    q(2) = (R(1, 0) - R(0, 1)) / s;
  } else if (R(0, 0) > R(1, 1) && R(0, 0) > R(2, 2)) {
    L s  = sqrtl(1 + R(0, 0) - R(1, 1) - R(2, 2)) * 2;
    q(3) = (R(2, 1) - R(1, 2)) / s;
    q(0) = s / 4;
    q(1) = (R(0, 1) + R(1, 0)) / s;
    q(2) = (R(0, 2) + R(2, 0)) / s;
  } else if (R(1, 1) > R(2, 2)) {
    L s  = sqrtl(1 + R(1, 1) - R(0, 0) - R(2, 2)) * 2;
    q(3) = (R(0, 2) - R(2, 0)) / s;
    q(0) = (R(0, 1) + R(1, 0)) / s;
    q(1) = s / 4;
    q(2) = (R(1, 2) + R(2, 1)) / s;
  } else {
    L s  = sqrtl(1 + R(2, 2) - R(0, 0) - R(1, 1)) * 2;
    q(3) = (R(1, 0) - R(0, 1)) / s;
    q(0) = (R(0, 2) + R(2, 0)) / s;
    q(1) = (R(1, 2) + R(2, 1)) / s;
    q(2) = s / 4;
  }
  q /= q.norm();
  if (q(3) < 0) q = -q;
  return q;
}

static Mat skew3(const Vec & w)
{
  Mat W(3, 3);
  W << 0, -w(2), w(1), w(2), 0, -w(0), -w(1), w(0), 0;
  return W;
}
static Vec unskew3(const Mat & A)
{
  Vec w(3);
  w << (A(2, 1) - A(1, 2)) / 2, (A(0, 2) - A(2, 0)) / 2, (A(1, 0) - A(0, 1)) / 2;
  return w;
}

namespace {

struct LSO2 : Layout
{
  LSO2()
  {
    name = "SO2"; rep = 2; dof = 1; dim = 2; commutative = true; rot = {0}; ucomplex = {0}; rotblocks = {{0, 1}};
  }
  Mat matrix(const Vec & c) const override
  {
    Mat M(2, 2);
    M << c(1), -c(0), c(0), c(1);
    return M;
  }
  Mat hat(const Vec & a) const override
  {
    Mat A(2, 2);
    A << 0, -a(0), a(0), 0;
    return A;
  }
  Vec vee(const Mat & A) const override
  {
    Vec a(1);
    a << (A(1, 0) - A(0, 1)) / 2;
    return a;
  }
  Vec identity_coeffs() const override
  {
    Vec c(2);
    c << 0, 1;
    return c;
  }
  Vec from_matrix(const Mat & M) const override
  {
    Vec c(2);
    c << M(1, 0), M(0, 0);
    c /= c.norm();
    return c;
  }
};

struct LSO3 : Layout
{
  LSO3()
  {
    name = "SO3"; rep = 4; dof = 3; dim = 3; rot = {0, 1, 2}; quat = {0}; rotblocks = {{0, 3}};
  }
  Mat matrix(const Vec & c) const override { return quat_to_R(c); }
  Mat hat(const Vec & a) const override { return skew3(a); }
  Vec vee(const Mat & A) const override { return unskew3(A); }
  Vec identity_coeffs() const override
  {
    Vec c(4);
    c << 0, 0, 0, 1;
    return c;
  }
  Vec from_matrix(const Mat & M) const override { return R_to_quat(M); }
};

struct LSE2 : Layout
{
  LSE2()
  {
    name = "SE2"; rep = 4; dof = 3; dim = 3; rot = {2}; ucomplex = {2}; rotblocks = {{2, 1}};
  }
  Mat matrix(const Vec & c) const override
  {
    Mat M(3, 3);
    M << c(3), -c(2), c(0), c(2), c(3), c(1), 0, 0, 1;
    return M;
  }
  Mat hat(const Vec & a) const override
  {
    Mat A(3, 3);
    A << 0, -a(2), a(0), a(2), 0, a(1), 0, 0, 0;
    return A;
  }
  Vec vee(const Mat & A) const override
  {
    Vec a(3);
    a << A(0, 2), A(1, 2), (A(1, 0) - A(0, 1)) / 2;
    return a;
  }
  Vec identity_coeffs() const override
  {
    Vec c(4);
    c << 0, 0, 0, 1;
    return c;
  }
  Vec from_matrix(const Mat & M) const override
  {
    Vec c(4);
    L n = sqrtl(M(1, 0) * M(1, 0) + M(0, 0) * M(0, 0));
    c << M(0, 2), M(1, 2), M(1, 0) / n, M(0, 0) / n;
    return c;
  }
};

struct LSE3 : Layout
{
  LSE3()
  {
    name = "SE3"; rep = 7; dof = 6; dim = 4; rot = {3, 4, 5}; quat = {3}; rotblocks = {{3, 3}};
  }
  Mat matrix(const Vec & c) const override
  {
    Mat M               = eye(4);
    M.block(0, 0, 3, 3) = quat_to_R(c.segment(3, 4));
    M.block(0, 3, 3, 1) = c.head(3);
    return M;
  }
  Mat hat(const Vec & a) const override
  {
    Mat A               = Mat::Zero(4, 4);
    A.block(0, 0, 3, 3) = skew3(a.segment(3, 3));
    A.block(0, 3, 3, 1) = a.head(3);
    return A;
  }
  Vec vee(const Mat & A) const override
  {
    Vec a(6);
    a.head(3)       = A.block(0, 3, 3, 1);
    a.segment(3, 3) = unskew3(A.block(0, 0, 3, 3));
    return a;
  }
  Vec identity_coeffs() const override
  {
    Vec c = Vec::Zero(7);
    c(6)  = 1;
    return c;
  }
  Vec from_matrix(const Mat & M) const override
  {
    Vec c(7);
    c.head(3)       = M.block(0, 3, 3, 1);
    c.segment(3, 4) = R_to_quat(M.block(0, 0, 3, 3));
    return c;
  }
};

struct LC1 : Layout
{
  LC1()
  {
    name = "C1"; rep = 2; dof = 2; dim = 2; commutative = true; rot = {1}; scomplex = {0}; rotblocks = {{1, 1}}; logscale = {0};
  }
  Mat matrix(const Vec & c) const override
  {
    Mat M(2, 2);
    M << c(1), -c(0), c(0), c(1);
    return M;
  }
  Mat hat(const Vec & a) const override
  {
    Mat A(2, 2);
    A << a(0), -a(1), a(1), a(0);
    return A;
  }
  Vec vee(const Mat & A) const override
  {
    Vec a(2);
    a << (A(0, 0) + A(1, 1)) / 2, (A(1, 0) - A(0, 1)) / 2;
    return a;
  }
  Vec identity_coeffs() const override
  {
    Vec c(2);
    c << 0, 1;
    return c;
  }
  Vec from_matrix(const Mat & M) const override
  {
    Vec c(2);
    c << M(1, 0), M(0, 0);
    return c;
  }
};

struct LGalilei : Layout
{
  LGalilei()
  {
    name = "Galilei"; rep = 11; dof = 10; dim = 5; rot = {7, 8, 9}; quat = {7}; rotblocks = {{7, 3}};
  }
  Mat matrix(const Vec & c) const override
  {
    Mat M               = eye(5);
    M.block(0, 0, 3, 3) = quat_to_R(c.segment(7, 4));
    M.block(0, 3, 3, 1) = c.segment(0, 3);  // v
    M.block(0, 4, 3, 1) = c.segment(3, 3);  // p
    M(3, 4)             = c(6);             // tau
    return M;
  }
  Mat hat(const Vec & a) const override
  {
    Mat A               = Mat::Zero(5, 5);
    A.block(0, 0, 3, 3) = skew3(a.segment(7, 3));
    A.block(0, 3, 3, 1) = a.segment(0, 3);  // b
    A.block(0, 4, 3, 1) = a.segment(3, 3);  // q
    A(3, 4)             = a(6);             // s
    return A;
  }
  Vec vee(const Mat & A) const override
  {
    Vec a(10);
    a.segment(0, 3) = A.block(0, 3, 3, 1);
    a.segment(3, 3) = A.block(0, 4, 3, 1);
    a(6)            = A(3, 4);
    a.segment(7, 3) = unskew3(A.block(0, 0, 3, 3));
    return a;
  }
  Vec identity_coeffs() const override
  {
    Vec c = Vec::Zero(11);
    c(10) = 1;
    return c;
  }
  Vec from_matrix(const Mat & M) const override
  {
    Vec c(11);
    c.segment(0, 3) = M.block(0, 3, 3, 1);
    c.segment(3, 3) = M.block(0, 4, 3, 1);
    c(6)            = M(3, 4);
    c.segment(7, 4) = R_to_quat(M.block(0, 0, 3, 3));
    return c;
  }
};

struct LSEK3 : Layout
{
  int K;
  explicit LSEK3(int k) : K(k)
  {
    name = "SE_" + std::to_string(k) + "_3"; rep = 4 + 3 * k; dof = 3 + 3 * k; dim = 3 + k;
    rot = {3 * k, 3 * k + 1, 3 * k + 2}; quat = {3 * k}; rotblocks = {{3 * k, 3}};
  }
  Mat matrix(const Vec & c) const override
  {
    Mat M               = eye(dim);
    M.block(0, 0, 3, 3) = quat_to_R(c.segment(3 * K, 4));
    for (int i = 0; i < K; ++i) M.block(0, 3 + i, 3, 1) = c.segment(3 * i, 3);
    return M;
  }
  Mat hat(const Vec & a) const override
  {
    Mat A               = Mat::Zero(dim, dim);
    A.block(0, 0, 3, 3) = skew3(a.segment(3 * K, 3));
    for (int i = 0; i < K; ++i) A.block(0, 3 + i, 3, 1) = a.segment(3 * i, 3);
    return A;
  }
  Vec vee(const Mat & A) const override
  {
    Vec a(dof);
    for (int i = 0; i < K; ++i) a.segment(3 * i, 3) = A.block(0, 3 + i, 3, 1);
    a.segment(3 * K, 3) = unskew3(A.block(0, 0, 3, 3));
    return a;
  }
  Vec identity_coeffs() const override
  {
    Vec c      = Vec::Zero(rep);
    c(rep - 1) = 1;
    return c;
  }
  Vec from_matrix(const Mat & M) const override
  {
    Vec c(rep);
    for (int i = 0; i < K; ++i) c.segment(3 * i, 3) = M.block(0, 3 + i, 3, 1);
    c.segment(3 * K, 4) = R_to_quat(M.block(0, 0, 3, 3));
    return c;
  }
};

struct LTn : Layout
{
  explicit LTn(int n)
  {
    name = "T" + std::to_string(n); rep = n; dof = n; dim = n + 1; commutative = true;
  }
  Mat matrix(const Vec & c) const override
  {
    Mat M               = eye(dim);
    M.block(0, dof, dof, 1) = c;
    return M;
  }
  Mat hat(const Vec & a) const override
  {
    Mat A               = Mat::Zero(dim, dim);
    A.block(0, dof, dof, 1) = a;
    return A;
  }
  Vec vee(const Mat & A) const override { return A.block(0, dof, dof, 1); }
  Vec identity_coeffs() const override { return Vec::Zero(rep); }
  Vec from_matrix(const Mat & M) const override { return M.block(0, dof, dof, 1); }
};

struct LBundle : Layout
{
  std::vector<int> reps, dofs, dims;  // own prefix sums
  explicit LBundle(std::vector<LayoutP> p)
  {
    parts = std::move(p);
    name        = "Bundle<";
    commutative = true;
    int r = 0, d = 0, m = 0;
    for (size_t i = 0; i < parts.size(); ++i) {
      const auto & q = *parts[i];
      reps.push_back(r);
      dofs.push_back(d);
      dims.push_back(m);
      for (int x : q.rot) rot.push_back(d + x);
      for (int x : q.quat) quat.push_back(r + x);
      for (int x : q.ucomplex) ucomplex.push_back(r + x);
      for (int x : q.scomplex) scomplex.push_back(r + x);
      for (int x : q.logscale) logscale.push_back(d + x);
      for (auto x : q.rotblocks) rotblocks.push_back({d + x.first, x.second});
      r += q.rep;
      d += q.dof;
      m += q.dim;
      commutative = commutative && q.commutative;
      name += (i ? "," : "") + q.name;
    }
    name += ">";
    rep = r;
    dof = d;
    dim = m;
    part_rep = reps;
    part_dof = dofs;
    part_dim = dims;
  }
  Mat matrix(const Vec & c) const override
  {
    Mat M = Mat::Zero(dim, dim);
    for (size_t i = 0; i < parts.size(); ++i)
      M.block(dims[i], dims[i], parts[i]->dim, parts[i]->dim) = parts[i]->matrix(c.segment(reps[i], parts[i]->rep));
    return M;
  }
  Mat hat(const Vec & a) const override
  {
    Mat M = Mat::Zero(dim, dim);
    for (size_t i = 0; i < parts.size(); ++i)
      M.block(dims[i], dims[i], parts[i]->dim, parts[i]->dim) = parts[i]->hat(a.segment(dofs[i], parts[i]->dof));
    return M;
  }
  Vec vee(const Mat & A) const override
  {
    Vec a(dof);
    for (size_t i = 0; i < parts.size(); ++i)
      a.segment(dofs[i], parts[i]->dof) = parts[i]->vee(A.block(dims[i], dims[i], parts[i]->dim, parts[i]->dim));
    return a;
  }
  Vec identity_coeffs() const override
  {
    Vec c(rep);
    for (size_t i = 0; i < parts.size(); ++i) c.segment(reps[i], parts[i]->rep) = parts[i]->identity_coeffs();
    return c;
  }
  Vec from_matrix(const Mat & M) const override
  {
    Vec c(rep);
    for (size_t i = 0; i < parts.size(); ++i)
      c.segment(reps[i], parts[i]->rep) = parts[i]->from_matrix(M.block(dims[i], dims[i], parts[i]->dim, parts[i]->dim));
    return c;
  }
};

}  // namespace

LayoutP L_SO2() { return std::make_shared<LSO2>(); }
LayoutP L_SO3() { return std::make_shared<LSO3>(); }
LayoutP L_SE2() { return std::make_shared<LSE2>(); }
LayoutP L_SE3() { return std::make_shared<LSE3>(); }
LayoutP L_C1() { return std::make_shared<LC1>(); }
LayoutP L_Galilei() { return std::make_shared<LGalilei>(); }
LayoutP L_SEK3(int K) { return std::make_shared<LSEK3>(K); }
LayoutP L_Tn(int n) { return std::make_shared<LTn>(n); }
LayoutP L_Bundle(std::vector<LayoutP> parts) { return std::make_shared<LBundle>(std::move(parts)); }

Mat Ad_ref(const Layout & l, const Mat & M)
{
  const Mat Mi = inv(M);
  Mat A(l.dof, l.dof);
  for (int j = 0; j < l.dof; ++j) A.col(j) = l.vee(M * l.hat(unit(l.dof, j)) * Mi);
  return A;
}

Mat ad_ref(const Layout & l, const Vec & a)
{
  const Mat Ha = l.hat(a);
  Mat A(l.dof, l.dof);
  for (int j = 0; j < l.dof; ++j) {
    const Mat Hj = l.hat(unit(l.dof, j));
    A.col(j)     = l.vee(Ha * Hj - Hj * Ha);
  }
  return A;
}

Vec bracket_ref(const Layout & l, const Vec & a, const Vec & b)
{
  const Mat Ha = l.hat(a), Hb = l.hat(b);
  return l.vee(Ha * Hb - Hb * Ha);
}

Mat exp_ref(const Layout & l, const Vec & a) { return expm(l.hat(a)); }
Vec log_ref(const Layout & l, const Mat & M) { return l.vee(logm(M)); }

static Mat phi_block(const Layout & l, const Vec & a)
{
  const int n = l.dof;
  Mat N       = Mat::Zero(2 * n, 2 * n);
  N.block(0, 0, n, n) = -ad_ref(l, a);
  N.block(0, n, n, n) = eye(n);
  return N;
}

Mat dr_exp_ref(const Layout & l, const Vec & a)
{
  const int n = l.dof;
  if (n == 0) return Mat(0, 0);
  if (!l.parts.empty()) {  // direct product: block diagonal of the parts' Jacobians
    Mat J = Mat::Zero(n, n);
    for (size_t i = 0; i < l.parts.size(); ++i) {
      const int d = l.parts[i]->dof, o = l.part_dof[i];
      J.block(o, o, d, d) = dr_exp_ref(*l.parts[i], a.segment(o, d));
    }
    return J;
  }
  return expm(phi_block(l, a)).block(0, n, n, n);
}

Mat dr_expinv_ref(const Layout & l, const Vec & a) { return inv(dr_exp_ref(l, a)); }
Mat dl_exp_ref(const Layout & l, const Vec & a) { return dr_exp_ref(l, -a); }
Mat dl_expinv_ref(const Layout & l, const Vec & a) { return inv(dr_exp_ref(l, -a)); }

Mat d_dr_exp_ref(const Layout & l, const Vec & a, int k)
{
  const int n = l.dof;
  if (!l.parts.empty()) {
    Mat D = Mat::Zero(n, n);
    for (size_t i = 0; i < l.parts.size(); ++i) {
      const int d = l.parts[i]->dof, o = l.part_dof[i];
      if (k >= o && k < o + d) D.block(o, o, d, d) = d_dr_exp_ref(*l.parts[i], a.segment(o, d), k - o);
    }
    return D;
  }
  const Mat N = phi_block(l, a);
  Mat dN      = Mat::Zero(2 * n, 2 * n);
  dN.block(0, 0, n, n) = -ad_ref(l, unit(n, k));
  Mat F = Mat::Zero(4 * n, 4 * n);
  F.block(0, 0, 2 * n, 2 * n)         = N;
  F.block(2 * n, 2 * n, 2 * n, 2 * n) = N;
  F.block(0, 2 * n, 2 * n, 2 * n)     = dN;
  const Mat EF = expm(F);
  // Frechet derivative = top-right 2n x 2n block; want its top-right n x n block
  return EF.block(0, 2 * n, 2 * n, 2 * n).block(0, n, n, n);
}

Mat d_dr_expinv_ref(const Layout & l, const Vec & a, int k)
{
  const Mat Ji = dr_expinv_ref(l, a);
  return -Ji * d_dr_exp_ref(l, a, k) * Ji;
}

static Mat pack_hessian(int n, const std::vector<Mat> & dJ)
{
  Mat H(n, n * n);
  for (int i = 0; i < n; ++i)
    for (int j = 0; j < n; ++j)
      for (int k = 0; k < n; ++k) H(j, i * n + k) = dJ[k](i, j);
  return H;
}

Mat d2r_exp_ref(const Layout & l, const Vec & a)
{
  std::vector<Mat> dJ;
  for (int k = 0; k < l.dof; ++k) dJ.push_back(d_dr_exp_ref(l, a, k));
  return pack_hessian(l.dof, dJ);
}

Mat d2r_expinv_ref(const Layout & l, const Vec & a)
{
  std::vector<Mat> dJ;
  const Mat Ji = dr_expinv_ref(l, a);
  for (int k = 0; k < l.dof; ++k) dJ.push_back(-Ji * d_dr_exp_ref(l, a, k) * Ji);
  return pack_hessian(l.dof, dJ);
}

Mat dr_action_ref(const Layout & l, const Mat & M, const Vec & v)
{
  Vec h(l.dim);
  if (v.size() == l.dim) {
    h = v;
  } else {
    h.head(l.dim - 1) = v;
    h(l.dim - 1)      = 1;
  }
  Mat J(v.size(), l.dof);
  for (int j = 0; j < l.dof; ++j) J.col(j) = (M * l.hat(unit(l.dof, j)) * h).head(v.size());
  return J;
}

L err_rel1(const Mat & X, const Mat & R)
{
  if (X.rows() != R.rows() || X.cols() != R.cols()) return INFINITY;
  if (X.size() == 0) return 0;
  const L d = maxabs(X - R), m = maxabs(R);
  if (!(d == d)) return INFINITY;
  return d / (m > 1 ? m : 1.0L);
}

L err_relmax(const Mat & X, const Mat & R)
{
  if (X.rows() != R.rows() || X.cols() != R.cols()) return INFINITY;
  if (X.size() == 0) return 0;
  const L d = maxabs(X - R), m = maxabs(R);
  if (!(d == d)) return INFINITY;
  return m > 0 ? d / m : d;
}

// ---------------- jets ----------------
Jet Jet::constant(const Mat & M, int order)
{
  Jet j;
  j.c.assign(order + 1, Mat::Zero(M.rows(), M.cols()));
  j.c[0] = M;
  return j;
}

Jet jet_mul(const Jet & a, const Jet & b)
{
  const int o = std::min(a.order(), b.order());
  Jet r;
  r.c.assign(o + 1, Mat::Zero(a.c[0].rows(), b.c[0].cols()));
  for (int i = 0; i <= o; ++i)
    for (int j = 0; i + j <= o; ++j) r.c[i + j] += a.c[i] * b.c[j];
  return r;
}

Jet jet_inv(const Jet & a)
{
  const int o = a.order();
  Jet r;
  r.c.resize(o + 1);
  r.c[0] = inv(a.c[0]);
  for (int k = 1; k <= o; ++k) {
    Mat s = Mat::Zero(a.c[0].rows(), a.c[0].cols());
    for (int j = 1; j <= k; ++j) s += a.c[j] * r.c[k - j];
    r.c[k] = -r.c[0] * s;
  }
  return r;
}

Jet jet_exp_scalar(const Mat & A, const std::vector<L> & s)
{
  const int o = int(s.size()) - 1;
  const int n = int(A.rows());
  // exp(s(h) A) = exp(s0 A) * exp(p(h) A), p = s1 h + s2 h^2 + s3 h^3
  // exp(pA) = sum_m p^m A^m / m!  truncated
  std::vector<L> pm(o + 1, 0);  // p^m coefficients
  Jet f = Jet::constant(eye(n), o);
  std::vector<L> p(o + 1, 0);
  for (int i = 1; i <= o; ++i) p[i] = s[i];
  pm[0]   = 1;
  Mat Am  = eye(n);
  L fact  = 1;
  for (int m = 1; m <= o; ++m) {
    // pm <- pm * p
    std::vector<L> q(o + 1, 0);
    for (int i = 0; i <= o; ++i)
      for (int j = 1; i + j <= o; ++j) q[i + j] += pm[i] * p[j];
    pm = q;
    Am = Am * A;
    fact *= m;
    for (int i = 0; i <= o; ++i) f.c[i] += (pm[i] / fact) * Am;
  }
  const Mat E0 = expm(s[0] * A);
  for (auto & c : f.c) c = E0 * c;
  return f;
}

void jet_body_derivs(const Layout & l, const Jet & G, Vec & vel, Vec & acc, Vec & jerk)
{
  const int o = G.order();
  // G' jet
  Jet dG;
  for (int k = 1; k <= o; ++k) dG.c.push_back(L(k) * G.c[k]);
  Jet Gi = jet_inv(G);
  Gi.c.resize(dG.c.size());
  const Jet Om = jet_mul(Gi, dG);
  vel          = l.vee(Om.c[0]);
  acc          = Om.order() >= 1 ? l.vee(Om.c[1]) : Vec::Zero(l.dof);
  jerk         = Om.order() >= 2 ? Vec(2 * l.vee(Om.c[2])) : Vec::Zero(l.dof);
}

}  // namespace orc
