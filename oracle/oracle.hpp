// Independent long-double reference ("oracle") library for the smooth monitors.
// Shares no code and no formulas with /repo/include/smooth: layouts are written from the
// documentation blocks, everything else follows from matrix definitions.
#pragma once

#include <Eigen/Core>
#include <memory>
#include <string>
#include <vector>

namespace orc {

using L   = long double;
using Mat = Eigen::Matrix<L, Eigen::Dynamic, Eigen::Dynamic>;
using Vec = Eigen::Matrix<L, Eigen::Dynamic, 1>;

// ---------- dense helpers ----------
Mat expm(const Mat & A);                 // scaling & squaring, Taylor
Mat logm(const Mat & A);                 // inverse scaling & squaring (no eigenvalue on R-)
Mat sqrtm_db(const Mat & A);             // Denman-Beavers
Mat inv(const Mat & A);                  // full pivoting Gauss-Jordan
Vec solve(const Mat & A, const Vec & b); // full pivoting
L maxabs(const Mat & A);
Vec eigvals_sym(const Mat & A);            // cyclic Jacobi, ascending
Mat eye(int n);

// ---------- group layouts (from the documentation blocks) ----------
struct Layout
{
  std::string name;
  int rep = 0, dof = 0, dim = 0;
  bool commutative = false;
  std::vector<int> rot;      // tangent indices that are rotation-like
  std::vector<int> quat;     // start offsets of unit-quaternion blocks (4 coeffs) in coefficient vector
  std::vector<int> ucomplex; // start offsets of unit-complex blocks (2 coeffs: qz qw)
  std::vector<int> scomplex; // start offsets of scaled-complex blocks (C1: a b)
  std::vector<std::pair<int, int>> rotblocks;  // (start, len) of rotation vectors inside the tangent
  std::vector<int> logscale;  // tangent indices that are log-scale coordinates (C1)
  virtual ~Layout() = default;
  virtual Mat matrix(const Vec & c) const = 0;  // documented matrix of stored coefficients
  virtual Mat hat(const Vec & a) const    = 0;  // documented algebra matrix
  virtual Vec vee(const Mat & A) const    = 0;  // inverse of hat on algebra matrices
  virtual Vec identity_coeffs() const     = 0;
  // coefficients (canonical) of a matrix group element (inverse of matrix())
  virtual Vec from_matrix(const Mat & M) const = 0;
  // direct-product structure (empty for simple groups): parts with the oracle's own prefix sums
  std::vector<std::shared_ptr<const Layout>> parts;
  std::vector<int> part_rep, part_dof, part_dim;
  // action on a point: size dim -> M v ; size dim-1 -> (M [v;1]) head
  Vec act(const Mat & M, const Vec & v) const;
};

using LayoutP = std::shared_ptr<const Layout>;
LayoutP L_SO2();
LayoutP L_SO3();
LayoutP L_SE2();
LayoutP L_SE3();
LayoutP L_C1();
LayoutP L_Galilei();
LayoutP L_SEK3(int K);
LayoutP L_Tn(int n);
LayoutP L_Bundle(std::vector<LayoutP> parts);

// rotation matrix of (x y z w) quaternion coefficients (unit-quaternion formula)
Mat quat_to_R(const Vec & q);
Vec R_to_quat(const Mat & R);  // canonical w >= 0

// ---------- definitions ----------
Vec unit(int n, int k);
Mat Ad_ref(const Layout & l, const Mat & M);              // col j = vee(M hat(e_j) M^-1)
Mat ad_ref(const Layout & l, const Vec & a);              // col j = vee([hat a, hat e_j])
Vec bracket_ref(const Layout & l, const Vec & a, const Vec & b);
Mat exp_ref(const Layout & l, const Vec & a);             // expm(hat a)
Vec log_ref(const Layout & l, const Mat & M);             // vee(logm M)
Mat dr_exp_ref(const Layout & l, const Vec & a);          // sum (-1)^k ad^k/(k+1)!
Mat dr_expinv_ref(const Layout & l, const Vec & a);
Mat dl_exp_ref(const Layout & l, const Vec & a);
Mat dl_expinv_ref(const Layout & l, const Vec & a);
// derivative of dr_exp w.r.t. a_k (n x n)
Mat d_dr_exp_ref(const Layout & l, const Vec & a, int k);
Mat d_dr_expinv_ref(const Layout & l, const Vec & a, int k);
// Hessians in the documented layout: H(j, i*n+k) = d/da_k J(i,j)
Mat d2r_exp_ref(const Layout & l, const Vec & a);
Mat d2r_expinv_ref(const Layout & l, const Vec & a);
// dr_action: column j = (M hat(e_j)) acting on homogeneous point, rows = point size
Mat dr_action_ref(const Layout & l, const Mat & M, const Vec & v);

// error measures
L err_rel1(const Mat & X, const Mat & R);    // max|X-R| / max(1, max|R|)
L err_relmax(const Mat & X, const Mat & R);  // max|X-R| / max|R|  (max|R|==0 -> absolute)

// ---------- matrix jets (truncated Taylor polynomials in one variable) ----------
struct Jet
{
  // c[k] = k-th Taylor coefficient (f^(k)/k!), order up to 3
  std::vector<Mat> c;
  static Jet constant(const Mat & M, int order);
  int order() const { return int(c.size()) - 1; }
};
Jet jet_mul(const Jet & a, const Jet & b);
Jet jet_inv(const Jet & a);
// exp(s(h) * A) where s(h) = s0 + s1 h + s2 h^2 + s3 h^3 (Taylor coeffs), A constant
Jet jet_exp_scalar(const Mat & A, const std::vector<L> & s);
// body velocity w = vee(G^-1 G'), and its first and second derivatives from a jet of G
void jet_body_derivs(const Layout & l, const Jet & G, Vec & vel, Vec & acc, Vec & jerk);

// ---------- misc numeric ----------
// self tests; returns number of failures, prints diagnostics to stderr
int selftest(bool verbose);

}  // namespace orc
